(* EvalModel: the evaluation routines of inference/evaluate.py as compositions of resampling (C09), fold sets (C05),
   prediction (C08), comparison (C03) and noise ceilings (C07): restriction of predictions to the drawn conditions,
   bootstrap multiplicity of fold conditions, covariance across resamples, degrees of freedom (C04). *)
From Coq Require Import List ZArith Bool Arith.
From RSA Require Import Prelude Vec ListLib RdmModel CompareModel.
Import ListNotations.

(* RDM vector over n conditions restricted to the selected condition positions (with repeats); a pair of one condition
   with itself has no dissimilarity *)
Definition sub_vec {A} (d : A) (n : nat) (sel : list nat) (v : list A) : list (option A) :=
  map (fun ab => let i := nth (fst ab) sel 0%nat in let j := nth (snd ab) sel 0%nat in
                 if Nat.eqb i j then None else Some (nth (vec_index n (Nat.min i j) (Nat.max i j)) v d))
      (pair_list (length sel)).

(* _concat_sampling: the drawn conditions (with their multiplicity) that belong to a fold *)
Definition concat_sampling (drawn fold : list Z) : list Z := flat_map (fun b => filter (Z.eqb b) drawn) fold.
Definition n_unique (l : list Z) : nat := length (sort_uniq l).
(* a resample can be evaluated when it has at least three different conditions *)
Definition usable (drawn : list Z) : bool := Nat.leb 3 (n_unique drawn).
(* crossval: folds with no RDMs or at most two conditions are marked NaN *)
Definition fold_usable (n_train_rdm n_test_rdm n_train_cond n_test_cond : nat) : bool :=
  negb (Nat.eqb n_train_rdm 0) && negb (Nat.eqb n_test_rdm 0) && Nat.ltb 2 n_train_cond && Nat.ltb 2 n_test_cond.

(* degrees of freedom: resampled units minus one, the smaller number when both factors are resampled *)
Inductive boot_kind := BBoth | BPattern | BRdm.
Definition dof_of (k : boot_kind) (n_rdm n_cond : nat) : nat :=
  match k with BBoth => Nat.min n_rdm n_cond - 1 | BPattern => n_cond - 1 | BRdm => n_rdm - 1 end.

Section Eval.
  Context {F : Type} (O : NumOps F).
  Notation "a + b" := (nadd O a b). Notation "a - b" := (nsub O a b).
  Notation "a * b" := (nmul O a b). Notation "a / b" := (ndiv O a b).

  (* np.cov (ddof = 1) of variables given as rows over the resamples *)
  Definition cov1 (x y : list F) : F := dot O (center O x) (center O y) / ofnat O (length x - 1).
  Definition cov_matrix (rows : list (list F)) : list (list F) := map (fun x => map (fun y => cov1 x y) rows) rows.
  (* np.cov(ddof = 0) / n: the fixed-evaluation covariance *)
  Definition cov0n (x y : list F) : F := (dot O (center O x) (center O y) / ofnat O (length x)) / ofnat O (length x).
  Definition cov0n_matrix (rows : list (list F)) : list (list F) := map (fun x => map (fun y => cov0n x y) rows) rows.
  (* projection of the variance of the mean over n_cv repetitions to infinitely many repetitions *)
  Definition cv_correct (n_cv : nat) (var_mean var_1 : F) : F :=
    ((ofnat O n_cv * var_mean) - var_1) / ofnat O (n_cv - 1).
  Definition mat_map2 (f : F -> F -> F) (A B : list (list F)) := map2 (map2 f) A B.
  Definition mat_mean (Ms : list (list (list F))) : list (list F) :=
    match Ms with
    | [] => []
    | M :: rest => map (map (fun x => x / ofnat O (length Ms))) (fold_left (mat_map2 (nadd O)) rest M)
    end.
End Eval.
