(* InferProofs: coherence of the reported variances, standard errors and p-values with the evaluations (C06). *)
From Coq Require Import List ZArith Reals Lra Lia Psatz Bool.
From RSA Require Import Prelude Vec VecR ListLib LinAlg CalcProofs CompareModel CompareProofs UnbalProofs NoiseProofs
  TransformProofs FitProofs InferModel.
Import ListNotations.
Open Scope R_scope.

(* ---------- p-values of a t statistic, for any symmetric distribution function ---------- *)
Section PValues.
  Variable cdf : R -> R.
  Hypothesis cdf_mono : forall x y, x <= y -> cdf x <= cdf y.
  Hypothesis cdf_range : forall x, 0 <= cdf x <= 1.
  Hypothesis cdf_sym : forall x, cdf (- x) = 1 - cdf x.

  Definition p_two (t : R) : R := 2 * (1 - cdf (Rabs t)).
  Definition p_one (t : R) : R := 1 - cdf t.

  Lemma cdf_zero : cdf 0 = 1 / 2.
  Proof. pose proof (cdf_sym 0) as H. rewrite Ropp_0 in H. lra. Qed.

  Theorem p_two_range t : 0 <= p_two t <= 1.
  Proof.
    unfold p_two. pose proof (cdf_range (Rabs t)). pose proof (cdf_mono 0 (Rabs t) (Rabs_pos t)). rewrite cdf_zero in *. lra.
  Qed.
  Theorem p_one_range t : 0 <= p_one t <= 1.
  Proof. unfold p_one. pose proof (cdf_range t). lra. Qed.
  Theorem p_two_sym t : p_two (- t) = p_two t.
  Proof. unfold p_two. rewrite Rabs_Ropp. reflexivity. Qed.
  Theorem p_two_zero : p_two 0 = 1.
  Proof. unfold p_two. rewrite Rabs_R0, cdf_zero. lra. Qed.
  (* a larger statistic never gives a larger p-value *)
  Theorem p_two_antitone s t : Rabs s <= Rabs t -> p_two t <= p_two s.
  Proof. intros H. unfold p_two. pose proof (cdf_mono _ _ H). lra. Qed.
  Theorem p_one_antitone s t : s <= t -> p_one t <= p_one s.
  Proof. intros H. unfold p_one. pose proof (cdf_mono _ _ H). lra. Qed.
End PValues.

(* ---------- the t statistic ---------- *)
Lemma feps_pos : 0 < feps ROps.
Proof. unfold feps. rsimp2. apply Rdiv_lt_0_compat; [lra|]. apply IZR_lt. reflexivity. Qed.

Lemma tstat_den_pos v : 0 < sqrt (nmax ROps v (feps ROps)).
Proof. apply sqrt_lt_R0. pose proof (nmax_R v (feps ROps)). pose proof feps_pos. lra. Qed.

Theorem tstat_monotone e1 e2 v : e1 <= e2 -> tstat ROps e1 v <= tstat ROps e2 v.
Proof.
  intros H. unfold tstat. rsimp2. pose proof (tstat_den_pos v) as Hd. unfold Rdiv.
  apply Rmult_le_compat_r; [left; apply Rinv_0_lt_compat; exact Hd|exact H].
Qed.
Theorem tstat_antisym e v : tstat ROps (- e) v = - tstat ROps e v.
Proof. unfold tstat. rsimp2. unfold Rdiv. ring. Qed.
Theorem tstat_zero v : tstat ROps 0 v = 0.
Proof. unfold tstat. rsimp2. unfold Rdiv. ring. Qed.
Theorem tstat_abs_monotone e1 e2 v : Rabs e1 <= Rabs e2 -> Rabs (tstat ROps e1 v) <= Rabs (tstat ROps e2 v).
Proof.
  intros H. unfold tstat. rsimp2. pose proof (tstat_den_pos v) as Hd. unfold Rdiv.
  rewrite !Rabs_mult. apply Rmult_le_compat_r; [apply Rabs_pos|exact H].
Qed.

(* pairwise tests: the statistic of (j,i) is minus that of (i,j), so the p-value matrix is symmetric; equal models give p = 1;
   a larger effect at equal variance never gives a larger p-value *)
Section PairwiseTests.
  Variable cdf : R -> R.
  Hypothesis cdf_mono : forall x y, x <= y -> cdf x <= cdf y.
  Hypothesis cdf_range : forall x, 0 <= cdf x <= 1.
  Hypothesis cdf_sym : forall x, cdf (- x) = 1 - cdf x.

  Theorem pairwise_p_symmetric mi mj v : p_two cdf (tstat ROps (mi - mj) v) = p_two cdf (tstat ROps (mj - mi) v).
  Proof. replace (mj - mi) with (- (mi - mj)) by ring. rewrite tstat_antisym, p_two_sym. reflexivity. Qed.
  Theorem pairwise_p_diagonal m v : p_two cdf (tstat ROps (m - m) v) = 1.
  Proof. replace (m - m) with 0 by ring. rewrite tstat_zero. apply p_two_zero. exact cdf_sym. Qed.
  Theorem two_sided_p_monotone e1 e2 v : Rabs e1 <= Rabs e2 -> p_two cdf (tstat ROps e2 v) <= p_two cdf (tstat ROps e1 v).
  Proof. intros H. apply p_two_antitone; [exact cdf_mono|]. apply tstat_abs_monotone. exact H. Qed.
  Theorem one_sided_p_monotone e1 e2 v : e1 <= e2 -> p_one cdf (tstat ROps e2 v) <= p_one cdf (tstat ROps e1 v).
  Proof. intros H. apply p_one_antitone; [exact cdf_mono|]. apply tstat_monotone. exact H. Qed.
End PairwiseTests.

(* ---------- variances ---------- *)
Theorem contrast_var_symmetric_cov M i j : entry ROps M i j = entry ROps M j i ->
  contrast_var ROps M (i, j) = entry ROps M i i + entry ROps M j j - 2 * entry ROps M i j.
Proof. intros H. unfold contrast_var. cbn [fst snd]. rsimp2. rewrite <- H. ring. Qed.

Theorem contrast_var_swap M i j : contrast_var ROps M (i, j) = contrast_var ROps M (j, i).
Proof. unfold contrast_var. cbn [fst snd]. rsimp2. ring. Qed.

Theorem sem_nonneg mv : Forall (fun s => 0 <= s) (sem ROps mv).
Proof. unfold sem. rewrite Forall_forall. intros s Hs. apply in_map_iff in Hs as (v & <- & _). rsimp2. apply sqrt_pos. Qed.

(* re-ordering the models re-orders every variance accordingly *)
Definition perm_matrix (sigma : nat -> nat) (n : nat) (M : list (list R)) : list (list R) :=
  map (fun i => map (fun j => entry ROps M (sigma i) (sigma j)) (seq 0 n)) (seq 0 n).
Lemma entry_perm sigma n M i j : (i < n)%nat -> (j < n)%nat ->
  entry ROps (perm_matrix sigma n M) i j = entry ROps M (sigma i) (sigma j).
Proof.
  intros Hi Hj. unfold entry at 1, perm_matrix, nthF.
  rewrite (nth_map_seq (fun i => map (fun j => entry ROps M (sigma i) (sigma j)) (seq 0 n)) n i []) by exact Hi.
  rewrite (nth_map_seq (fun j => entry ROps M (sigma i) (sigma j)) n j (n0 ROps)) by exact Hj. reflexivity.
Qed.
Theorem model_var_equivariant sigma n M i : (i < n)%nat ->
  entry ROps (perm_matrix sigma n M) i i = entry ROps M (sigma i) (sigma i).
Proof. intros H. apply entry_perm; exact H. Qed.
Theorem contrast_var_equivariant sigma n M i j : (i < n)%nat -> (j < n)%nat ->
  contrast_var ROps (perm_matrix sigma n M) (i, j) = contrast_var ROps M (sigma i, sigma j).
Proof. intros Hi Hj. unfold contrast_var. cbn [fst snd]. rewrite !entry_perm by assumption. reflexivity. Qed.

(* ---------- fixed evaluation: the stored covariance is cov(ddof=0)/n of the per-subject evaluations; with the
   n/(n-1) factor the model variance is the squared classical standard error, the difference variance that of the
   paired differences ---------- *)
Definition cov0 (x y : list R) : R := rdot (center ROps x) (center ROps y) / INR (length x).
Definition var1 (x : list R) : R := rdot (center ROps x) (center ROps x) / (INR (length x) - 1).

Lemma bessel_R n : (2 <= n)%nat -> bessel ROps n = INR n / (INR n - 1).
Proof. intros H. unfold bessel. rsimp2. rewrite !INR_ofnat, minus_INR by lia. reflexivity. Qed.

Theorem fixed_model_var_is_sem_squared x : (2 <= length x)%nat ->
  bessel ROps (length x) * (cov0 x x / INR (length x)) = var1 x / INR (length x).
Proof.
  intros H. rewrite bessel_R by exact H. unfold cov0, var1.
  assert (2 <= INR (length x)) by (replace 2 with (INR 2) by reflexivity; apply le_INR; exact H).
  field. split; lra.
Qed.

Lemma rsum_vsub (a b : list R) : length a = length b -> rsum (rvsub a b) = rsum a - rsum b.
Proof.
  revert b. induction a as [|x a IH]; intros [|y b] H; try discriminate; [cbn; lra|].
  cbn [vsub map2]. rewrite !rsum_cons. fold (rvsub a b). rewrite IH by (cbn in H; lia). rsimp. lra.
Qed.

Lemma map_map2 {X Y Z' U} (g : Z' -> U) (f : X -> Y -> Z') a b : map g (map2 f a b) = map2 (fun x y => g (f x y)) a b.
Proof. revert b. induction a as [|x a IH]; intros [|y b]; cbn; try reflexivity. rewrite IH. reflexivity. Qed.
Lemma map2_map_l {X X' Y Z'} (f : X' -> Y -> Z') (g : X -> X') a b : map2 f (map g a) b = map2 (fun x y => f (g x) y) a b.
Proof. revert b. induction a as [|x a IH]; intros [|y b]; cbn; try reflexivity. rewrite IH. reflexivity. Qed.
Lemma map2_map_r {X Y Y' Z'} (f : X -> Y' -> Z') (g : Y -> Y') a b : map2 f a (map g b) = map2 (fun x y => f x (g y)) a b.
Proof. revert b. induction a as [|x a IH]; intros [|y b]; cbn; try reflexivity. rewrite IH. reflexivity. Qed.
Lemma map2_ext {X Y Z'} (f g : X -> Y -> Z') a b : (forall x y, f x y = g x y) -> map2 f a b = map2 g a b.
Proof. intros E. revert b. induction a as [|x a IH]; intros [|y b]; cbn; try reflexivity. rewrite IH, E. reflexivity. Qed.

Lemma center_vsub x y : length x = length y -> x <> [] ->
  center ROps (rvsub x y) = rvsub (center ROps x) (center ROps y).
Proof.
  intros Hl Hne. unfold center at 1. unfold mean. rsimp2. change (sum ROps (rvsub x y)) with (rsum (rvsub x y)).
  rewrite rsum_vsub by exact Hl. rewrite vsub_length by exact Hl.
  unfold center, mean, vsub. rsimp2. rewrite map_map2, map2_map_l, map2_map_r. rewrite <- Hl.
  apply map2_ext. intros a b. change (sum ROps x) with (rsum x). change (sum ROps y) with (rsum y).
  rewrite INR_ofnat. pose proof (INR_pos_len x Hne). field. lra.
Qed.

Theorem fixed_diff_var_is_paired x y : length x = length y -> (2 <= length x)%nat ->
  let n := INR (length x) in
  bessel ROps (length x) * ((cov0 x x / n + cov0 y y / n) - 2 * (cov0 x y / n)) = var1 (rvsub x y) / n.
Proof.
  intros Hl H n. rewrite bessel_R by exact H. unfold cov0, var1, n.
  assert (Hne : x <> []) by (intros E; subst x; cbn in H; lia).
  rewrite center_vsub by assumption. rewrite vsub_length by exact Hl. rewrite <- Hl.
  pose proof (gram_eq (center ROps x) (center ROps y)) as G. unfold sqdist, sqnorm in G.
  rewrite <- G by (rewrite !center_length; exact Hl).
  assert (2 <= INR (length x)) by (replace 2 with (INR 2) by reflexivity; apply le_INR; exact H).
  field. split; lra.
Qed.

(* ---------- dual bootstrap ---------- *)
Theorem dual_never_above_two_factor nr np v0 v1 v2 : dual ROps nr np v0 v1 v2 <= v0.
Proof. unfold dual. destruct nr, np; apply nmin_R. Qed.

Theorem dual_not_below_corrected_single_factor r p v0 v1 v2 :
  bessel ROps r * v1 <= v0 -> bessel ROps p * v2 <= v0 ->
  bessel ROps r * v1 <= dual ROps (Some r) (Some p) v0 v1 v2 /\ bessel ROps p * v2 <= dual ROps (Some r) (Some p) v0 v1 v2.
Proof.
  intros Ha Hb. unfold dual. cbv zeta. unfold nmin. rsimp2.
  set (a := bessel ROps r * v1) in *. set (b := bessel ROps p * v2) in *.
  match goal with |- context [nmax ROps (nmax ROps ?x a) b] => set (v := x) end.
  pose proof (nmax_R v a) as [H1 H2]. pose proof (nmax_R (nmax ROps v a) b) as [H3 H4].
  destruct (Rle_dec (nmax ROps (nmax ROps v a) b) v0); split; lra.
Qed.

Theorem dual_uncorrected_bounds v0 v1 v2 : v1 <= v0 -> v2 <= v0 ->
  v1 <= dual ROps None None v0 v1 v2 /\ v2 <= dual ROps None None v0 v1 v2.
Proof.
  intros Ha Hb. unfold dual. cbv zeta. unfold nmin. rsimp2.
  match goal with |- context [nmax ROps (nmax ROps ?x v1) v2] => set (v := x) end.
  pose proof (nmax_R v v1) as [H1 H2]. pose proof (nmax_R (nmax ROps v v1) v2) as [H3 H4].
  destruct (Rle_dec (nmax ROps (nmax ROps v v1) v2) v0); split; lra.
Qed.

(* ---------- bootstrap p-values ---------- *)
Lemma countb_le f (l : list (option R)) : (countb f l <= length l)%nat.
Proof.
  unfold countb, present.
  induction l as [|[x|] l IH]; cbn [flat_map app filter length]; [lia| |lia].
  destruct (f x); cbn [length]; lia.
Qed.

Theorem boot_count_p_range d : d <> [] -> 0 < boot_count_p ROps d <= 1.
Proof.
  intros Hne. unfold boot_count_p. set (q := ndiv ROps _ _).
  assert (Hq : 0 < q).
  { unfold q. rsimp2. rewrite !INR_ofnat. apply Rdiv_lt_0_compat; [apply lt_0_INR; lia|apply INR_pos_len; exact Hne]. }
  pose proof (nmin_R q (n1 ROps)) as [H1 H2]. rsimp2. split; [|exact H2].
  unfold nmin. rsimp2. destruct (Rle_dec q 1); lra.
Qed.

Theorem boot_pair_range a b : let n := length a in let d := odiff ROps a b in
  (2 <= n)%nat -> (countb (fun x => neqb ROps x (n0 ROps)) d < n)%nat ->
  (countb (fun x => nltb ROps x (n0 ROps)) d + countb (fun x => neqb ROps x (n0 ROps)) d <= n)%nat ->
  / INR n <= boot_pair ROps a b <= 1.
Proof.
  intros n d Hn Heq Hsum. unfold boot_pair. fold n d.
  set (lt := countb (fun x => nltb ROps x (n0 ROps)) d) in *. set (eq := countb (fun x => neqb ROps x (n0 ROps)) d) in *.
  rsimp2. rewrite !INR_ofnat. rewrite !minus_INR by lia.
  assert (Hn2 : 2 <= INR n) by (replace 2 with (INR 2) by reflexivity; apply le_INR; exact Hn).
  assert (Hde : 0 < INR n - INR eq) by (apply lt_INR in Heq; lra).
  assert (Hlt0 : 0 <= INR lt) by apply pos_INR.
  assert (Hlt1 : INR lt <= INR n - INR eq). { apply le_INR in Hsum. rewrite plus_INR in Hsum. lra. }
  set (prop := INR lt / (INR n - INR eq)).
  assert (Hp : 0 <= prop <= 1).
  { unfold prop. split; [apply Rmult_le_pos; [exact Hlt0|left; apply Rinv_0_lt_compat; exact Hde]|].
    apply Rmult_le_reg_r with (r := INR n - INR eq); [exact Hde|]. unfold Rdiv. rewrite Rmult_assoc, Rinv_l by lra. lra. }
  assert (Hm : 0 <= nmin ROps prop (1 - prop) * 2 <= 1).
  { unfold nmin. rsimp2. destruct (Rle_dec prop (1 - prop)); lra. }
  set (mm := nmin ROps prop (1 - prop) * 2) in *. change (IZR 1) with 1. replace (INR 1) with 1 by reflexivity.
  assert (Hin : 0 < / INR n) by (apply Rinv_0_lt_compat; lra).
  assert (Hfac : 0 <= (INR n - 1) / INR n <= 1 - / INR n).
  { split; [apply Rmult_le_pos; [lra|lra]|]. right. field. lra. }
  replace (1 / INR n) with (/ INR n) by (unfold Rdiv; ring).
  split; nra.
Qed.

(* ---------- NaN-aware means ---------- *)
Lemma present_app {F} (a b : list (option F)) : present (a ++ b) = present a ++ present b.
Proof. unfold present. apply flat_map_app. Qed.

Theorem nanmean_ignores_missing (a b : list (option R)) : nanmean ROps (a ++ None :: b) = nanmean ROps (a ++ b).
Proof. unfold nanmean. rewrite !present_app. cbn [present flat_map app]. reflexivity. Qed.

Lemma present_all (xs : list R) : present (map Some xs) = xs.
Proof. induction xs as [|x xs IH]; [reflexivity|]. cbn. unfold present in IH. rewrite IH. reflexivity. Qed.

Theorem nanmean_all_present (xs : list R) : xs <> [] -> nanmean ROps (map Some xs) = Some (mean ROps xs).
Proof. intros H. unfold nanmean. rewrite present_all. destruct xs; [contradiction|reflexivity]. Qed.

Theorem nanmean_nothing_present n : nanmean ROps (repeat None n) = None.
Proof. unfold nanmean. replace (present (repeat (@None R) n)) with (@nil R); [reflexivity|]. induction n; [reflexivity|exact IHn]. Qed.
