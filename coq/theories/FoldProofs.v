(* FoldProofs: folds partition the groups; groups are never split; handed-out training objects do not
   depend on test-only entries (C05). *)
From Coq Require Import List ZArith Bool Arith Lia Permutation PeanoNat.
From RSA Require Import ListLib RdmModel RdmProofs FoldModel.
Import ListNotations.

(* ---------- index arithmetic ---------- *)
Lemma concat_map_app {X Y} (a b : X -> list Y) (l : list X) :
  Permutation (concat (map (fun i => a i ++ b i) l)) (concat (map a l) ++ concat (map b l)).
Proof.
  induction l as [|x l IH]; cbn; [constructor|].
  rewrite <- !app_assoc. apply Permutation_app_head.
  rewrite IH. rewrite !app_assoc. apply Permutation_app_tail. apply Permutation_app_comm.
Qed.

Lemma concat_blocks g k : concat (map (fun i => seq (i * g) g) (seq 0 k)) = seq 0 (k * g).
Proof.
  induction k as [|k IH]; [reflexivity|].
  rewrite seq_S, map_app, concat_app, IH. cbn [map concat]. rewrite app_nil_r.
  replace (S k * g) with (k * g + g) by lia. rewrite seq_app. reflexivity.
Qed.

Lemma extras n r k : r <= k ->
  concat (map (fun i => if i <? r then [n - (i + 1)] else []) (seq 0 k))
  = map (fun i => n - (i + 1)) (seq 0 r).
Proof.
  intros Hrk. replace k with (r + (k - r)) by lia. rewrite seq_app, map_app, concat_app.
  assert (H1: forall m a, a + m <= r ->
     concat (map (fun i => if i <? r then [n - (i + 1)] else []) (seq a m))
     = map (fun i => n - (i + 1)) (seq a m)).
  { induction m as [|m IH]; intros a Ha; [reflexivity|].
    cbn [seq map concat]. destruct (Nat.ltb_spec a r); [|lia]. cbn. f_equal. apply IH. lia. }
  rewrite (H1 r 0) by lia.
  assert (H2: forall m a, r <= a -> concat (map (fun i => if i <? r then [n - (i + 1)] else []) (seq a m)) = []).
  { induction m as [|m IH]; intros a Ha; [reflexivity|]. cbn [seq map concat].
    destruct (Nat.ltb_spec a r); [lia|]. cbn. apply IH. lia. }
  cbn [Nat.add]. rewrite H2 by lia. apply app_nil_r.
Qed.

Lemma rev_tail n r : r <= n -> Permutation (map (fun i => n - (i + 1)) (seq 0 r)) (seq (n - r) r).
Proof.
  intros H. induction r as [|r IH]; [constructor|].
  rewrite seq_S, map_app. cbn [map Nat.add].
  replace (seq (n - S r) (S r)) with ((n - S r) :: seq (n - r) r).
  2:{ cbn [seq]. f_equal. f_equal. lia. }
  rewrite Permutation_app_comm. cbn [app]. replace (n - (r + 1)) with (n - S r) by lia.
  constructor. apply IH. lia.
Qed.

(* every index 0..n-1 is in exactly one test fold, for every 0 < k <= n *)
Theorem kfold_partition n k : 0 < k -> k <= n ->
  Permutation (concat (map (kfold_test n k) (seq 0 k))) (seq 0 n).
Proof.
  intros Hk Hkn. unfold kfold_test. rewrite concat_map_app, concat_blocks.
  pose proof (Nat.mod_upper_bound n k ltac:(lia)) as Hr.
  pose proof (Nat.div_mod n k ltac:(lia)) as Hd.
  pose proof (Nat.mod_le n k ltac:(lia)) as Hle.
  rewrite extras by lia. rewrite rev_tail by lia.
  replace (n - n mod k) with (k * (n / k)) by lia.
  rewrite <- seq_app. replace (k * (n / k) + n mod k) with n by lia. reflexivity.
Qed.

Theorem kfold_tests_disjoint n k : 0 < k -> k <= n -> NoDup (concat (map (kfold_test n k) (seq 0 k))).
Proof.
  intros Hk Hkn. eapply Permutation_NoDup; [apply Permutation_sym, kfold_partition; assumption|apply seq_NoDup].
Qed.

(* fold sizes differ by at most one *)
Theorem kfold_test_size n k i :
  length (kfold_test n k i) = n / k + (if i <? n mod k then 1 else 0).
Proof. unfold kfold_test. rewrite app_length, seq_length. destruct (i <? n mod k); reflexivity. Qed.

Lemma memnat_In x l : memnat x l = true <-> In x l.
Proof.
  unfold memnat. rewrite existsb_exists. split.
  - intros (y & Hy & E). apply Nat.eqb_eq in E. subst. exact Hy.
  - intros H. exists x. split; [exact H|apply Nat.eqb_refl].
Qed.

(* the training indices are exactly the complement of the test indices when k > 1 *)
Theorem kfold_train_complement n k i j : 1 < k ->
  In j (kfold_train n k i) <-> j < n /\ ~ In j (kfold_test n k i).
Proof.
  intros Hk. unfold kfold_train. destruct (Nat.leb_spec k 1); [lia|].
  rewrite filter_In, in_seq, negb_true_iff. split.
  - intros [H1 H2]. split; [lia|]. intros Hin. apply memnat_In in Hin. congruence.
  - intros [H1 H2]. split; [lia|]. destruct (memnat j (kfold_test n k i)) eqn:E; [|reflexivity].
    apply memnat_In in E. contradiction.
Qed.

Theorem kfold_train_test_disjoint n k i j : 1 < k ->
  In j (kfold_test n k i) -> ~ In j (kfold_train n k i).
Proof. intros Hk Hin Htr. apply (kfold_train_complement n k i j Hk) in Htr. tauto. Qed.

(* ---------- applied to any ordering of the groups (every shuffle outcome) ---------- *)
Lemma map_nth_seq (order : list Z) : map (fun i => nth i order 0%Z) (seq 0 (length order)) = order.
Proof.
  induction order as [|x l IH]; [reflexivity|]. cbn [length seq map nth]. f_equal.
  rewrite <- seq_shift, map_map. exact IH.
Qed.

Theorem kfold_values_partition (order : list Z) k : 0 < k -> k <= length order ->
  Permutation (concat (map (fun i => vals_at order (kfold_test (length order) k i)) (seq 0 k))) order.
Proof.
  intros Hk Hkn. unfold vals_at.
  rewrite <- (map_map (kfold_test (length order) k) (map (fun i => nth i order 0%Z))).
  rewrite <- concat_map.
  transitivity (map (fun i => nth i order 0%Z) (seq 0 (length order))).
  - apply Permutation_map. apply kfold_partition; assumption.
  - rewrite map_nth_seq. reflexivity.
Qed.

(* with distinct group labels no test value is also a training value of the same fold *)
Theorem kfold_values_disjoint (order : list Z) k i v : NoDup order -> 1 < k -> 0 < k -> k <= length order -> i < k ->
  In v (vals_at order (kfold_test (length order) k i)) ->
  ~ In v (vals_at order (kfold_train (length order) k i)).
Proof.
  intros Hnd Hk1 Hk Hkn Hi Hte Htr. unfold vals_at in *.
  apply in_map_iff in Hte as (a & Ha & Hain). apply in_map_iff in Htr as (b & Hb & Hbin).
  assert (Hbn : b < length order).
  { pose proof (proj1 (kfold_train_complement _ _ _ _ Hk1) Hbin) as [Hx _]. exact Hx. }
  assert (Han : a < length order).
  { assert (In a (seq 0 (length order))).
    { eapply Permutation_in; [exact (kfold_partition (length order) k Hk Hkn)|].
      apply in_concat. exists (kfold_test (length order) k i). split; [|exact Hain].
      apply in_map. apply in_seq. lia. }
    apply in_seq in H. lia. }
  assert (a = b) by (apply (proj1 (NoDup_nth order 0%Z) Hnd); [assumption|assumption|congruence]).
  subst b. exact (kfold_train_test_disjoint _ _ _ _ Hk1 Hain Hbin).
Qed.

(* ---------- groups are never split ---------- *)
Lemma memZ_In x l : memZ x l = true <-> In x l.
Proof.
  unfold memZ. rewrite existsb_exists. split.
  - intros (y & Hy & E). apply Z.eqb_eq in E. subst. exact Hy.
  - intros H. exists x. split; [exact H|apply Z.eqb_refl].
Qed.

Lemma nth_error_some_nth (l : list Z) i x : nth_error l i = Some x -> nth i l 0%Z = x /\ i < length l.
Proof.
  intros H. split; [apply nth_error_nth; exact H|]. apply nth_error_Some. congruence.
Qed.

(* subset / subset_pattern: an item is selected iff its descriptor value is among the requested ones *)
Theorem pos_in_spec vals keys i :
  In i (pos_in vals keys) <-> i < length keys /\ In (nth i keys 0%Z) vals.
Proof.
  unfold pos_in, positions. rewrite positions_from_spec. split.
  - intros (j & x & -> & Hn & Hf). cbn. apply nth_error_some_nth in Hn as [<- Hl].
    split; [exact Hl|apply memZ_In; exact Hf].
  - intros [Hl Hin]. exists i, (nth i keys 0%Z). split; [reflexivity|]. split.
    + apply nth_error_nth'; exact Hl.
    + apply memZ_In; exact Hin.
Qed.

(* subsample: likewise (with multiplicity given by the request) *)
Theorem pos_each_spec vals keys i :
  In i (pos_each vals keys) <-> i < length keys /\ In (nth i keys 0%Z) vals.
Proof.
  unfold pos_each. rewrite in_concat. split.
  - intros (l & Hl & Hil). apply in_map_iff in Hl as (v & <- & Hv).
    unfold positions in Hil. apply positions_from_spec in Hil as (j & x & -> & Hn & Hf). cbn.
    apply nth_error_some_nth in Hn as [<- Hlen]. apply Z.eqb_eq in Hf. subst. split; assumption.
  - intros [Hl Hin]. exists (positions (fun k => Z.eqb k (nth i keys 0%Z)) keys). split.
    + apply in_map_iff. exists (nth i keys 0%Z). split; [reflexivity|exact Hin].
    + unfold positions. apply positions_from_spec. exists i, (nth i keys 0%Z).
      split; [reflexivity|]. split; [apply nth_error_nth'; exact Hl|apply Z.eqb_refl].
Qed.

(* all members (and all bootstrap copies) of one group land on the same side *)
Theorem group_not_split vals keys i j :
  i < length keys -> j < length keys -> nth i keys 0%Z = nth j keys 0%Z ->
  (In i (pos_in vals keys) <-> In j (pos_in vals keys)) /\
  (In i (pos_each vals keys) <-> In j (pos_each vals keys)).
Proof.
  intros Hi Hj E. rewrite !pos_in_spec, !pos_each_spec, E. tauto.
Qed.

(* ---------- non-interference: a handed-out object depends only on the selected entries ---------- *)
Section NonInterference.
  Context {A : Type} (zero : A).

  Lemma mapi_from_ext_in {X Y} (f g : nat -> X -> Y) k l :
    (forall i x, In x l -> f i x = g i x) -> mapi_from f k l = mapi_from g k l.
  Proof.
    revert k; induction l as [|x l IH]; intros k H; cbn [mapi_from]; [reflexivity|].
    rewrite H by (left; reflexivity). f_equal. apply IH. intros i y Hy. apply H. right. exact Hy.
  Qed.

  Theorem msel_depends_on_selected d sel (M M' : mat A) :
    (forall i j, In i sel -> In j sel -> mget A M i j = mget A M' i j) ->
    msel A zero d sel M = msel A zero d sel M'.
  Proof.
    intros H. unfold msel, mapi. apply mapi_from_ext_in. intros i' si Hsi.
    apply mapi_from_ext_in. intros j' sj Hsj. rewrite (H si sj Hsi Hsj). reflexivity.
  Qed.

  (* two data objects that agree on every entry whose two conditions are both selected (and on all
     descriptors) yield the same object: altering entries that involve a non-selected (e.g. test-only)
     condition cannot change a training set *)
  Theorem sel_patterns_depends_on_selected d sel (s s' : rdms A) :
    pats s = pats s' -> pidx s = pidx s' -> ridx s = ridx s' ->
    map fst (items s) = map fst (items s') ->
    Forall2 (fun it it' => forall i j, In i sel -> In j sel -> mget A (snd it) i j = mget A (snd it') i j)
            (items s) (items s') ->
    sel_patterns A zero d sel s = sel_patterns A zero d sel s'.
  Proof.
    intros Hp Hpi Hri Hf HF. unfold sel_patterns. rewrite Hp, Hpi, Hri. f_equal.
    revert Hf. induction HF as [|it it' l l' Hit HF IH]; intros Hf; [reflexivity|].
    cbn [map] in *. injection Hf as Hf1 Hf2. rewrite Hf1. f_equal; [|apply IH; exact Hf2].
    f_equal. apply msel_depends_on_selected. exact Hit.
  Qed.

  (* on the RDM axis: the selected object depends only on the selected RDMs *)
  Theorem sel_rdms_depends_on_selected sel (s s' : rdms A) :
    pats s = pats s' -> pidx s = pidx s' -> ridx s = ridx s' ->
    (forall i, In i sel -> nth i (items s) ([], []) = nth i (items s') ([], [])) ->
    sel_rdms A sel s = sel_rdms A sel s'.
  Proof.
    intros Hp Hpi Hri H. unfold sel_rdms. rewrite Hp, Hpi, Hri. f_equal.
    apply map_ext_in. exact H.
  Qed.
End NonInterference.
