(* BootModel: bootstrap resampling of rsatoolbox.inference.bootstrap (C09), on top of RdmModel.
   A draw list is what np.random.randint(0, G, size=G) returned. *)
From Coq Require Import List ZArith Bool Arith.
From RSA Require Import ListLib RdmModel.
Import ListNotations.

Section Boot.
  Variable A : Type.
  Variable zero : A.
  Notation rdms := (rdms A).

  (* np.unique of the grouping descriptor *)
  Definition groups (keys : list Z) : list Z := sort_uniq keys.
  (* drawn labels: select[draw] *)
  Definition drawn (sel : list Z) (draws : list nat) : list Z := map (fun d => nth d sel 0%Z) draws.

  Definition boot_rdm (col : option nat) (draws : list nat) (s : rdms) : rdms * list Z :=
    let idx := drawn (groups (rkeys A col s)) draws in
    (step A zero s (OSubsample col idx), idx).
  Definition boot_pattern (col : option nat) (draws : list nat) (s : rdms) : rdms * list Z :=
    let idx := drawn (groups (pkeys A col s)) draws in
    (step A zero s (OSubsamplePat col idx), idx).
  (* bootstrap_sample: RDMs first, then patterns of the resampled object *)
  Definition boot_both (rcol pcol : option nat) (rdraws pdraws : list nat) (s : rdms)
    : rdms * list Z * list Z :=
    let '(s1, ridx) := boot_rdm rcol rdraws s in
    let '(s2, pidx) := boot_pattern pcol pdraws s1 in
    (s2, ridx, pidx).

  Definition draws_ok (keys : list Z) (draws : list nat) : Prop :=
    length draws = length (groups keys) /\ Forall (fun d => d < length (groups keys)) draws.
End Boot.
