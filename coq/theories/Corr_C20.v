(* Corr_C20: executable correspondence for the importers. *)
From Coq Require Import List ZArith QArith String Bool Arith.
From RSA Require Export Prelude Vec ImportModel TransformModel FilterModel.
Import ListNotations.

Definition ostr_eqb (a b : option string) : bool :=
  match a, b with None, None => true | Some x, Some y => String.eqb x y | _, _ => false end.
Definition bids_eqb (a b : bids) : bool :=
  ostr_eqb (b_derivative a) (b_derivative b) && String.eqb (b_sub a) (b_sub b) && ostr_eqb (b_ses a) (b_ses b) &&
  String.eqb (b_modality a) (b_modality b) && ostr_eqb (b_task a) (b_task b) && ostr_eqb (b_run a) (b_run b) &&
  ostr_eqb (b_space a) (b_space b) && ostr_eqb (b_desc a) (b_desc b) && String.eqb (b_suffix a) (b_suffix b) &&
  String.eqb (b_ext a) (b_ext b).
Definition minfo_eqb (a b : minfo) : bool :=
  String.eqb (m_experiment a) (m_experiment b) && String.eqb (m_structure a) (m_structure b) &&
  String.eqb (m_filetype a) (m_filetype b) && Nat.eqb (m_scope a) (m_scope b) &&
  String.eqb (m_participant a) (m_participant b) && String.eqb (m_task a) (m_task b).

Inductive icase :=
| IBids (path : string) (observed : bids)
(* kind: 0 metadata (.json), 1 events, 2 table sibling, 3 mri sibling *)
| IReplace (kind : nat) (base : string) (desc suffix : string) (observed_relpath : string)
| IMeadows (pets : list string) (basename : string) (observed : minfo)
(* normalised design-matrix columns as returned: every column must have mean 0 and range 1 *)
| IDesign (columns : list (list Q))
| IFilter (T : nat) (qs : list (list Q)) (y : list Q) (o : list Q).

Definition icheck (c : icase) : nat :=
  let ok :=
    match c with
    | IBids path o => match deconstruct path with Some r => bids_eqb r o | None => false end
    | IReplace kind base desc suffix o =>
        match deconstruct base with
        | Some r =>
            let r' := match kind with
                      | 0%nat => with_ext r "json"
                      | 1%nat => events_for r
                      | 2%nat => table_sibling r desc suffix
                      | _ => mri_sibling r desc suffix
                      end in
            String.eqb (format_bids r') o
        | None => false
        end
    | IMeadows pets b o => minfo_eqb (meadows_segments pets b) o
    | IDesign cols =>
        forallb (fun col => Qclose tol6 0 (sum QOps col / inject_Z (Z.of_nat (List.length col))) &&
                            Qclose tol6 1 (list_max QOps col - list_min QOps col)) cols
    | IFilter T qs y o => Qclose_list tol9 (proj_out QOps T qs y) o
    end in
  verdict ok ok.
