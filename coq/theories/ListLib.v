(* ListLib: label lists, first-appearance uniques, stable insertion sort, selections. *)
From Coq Require Import List ZArith Bool Lia Permutation Sorted.
Import ListNotations.

(* distinct values in order of first appearance (get_unique_unsorted / get_unique_inverse) *)
Fixpoint uniq_first (l : list Z) : list Z :=
  match l with
  | [] => []
  | x :: t => x :: filter (fun y => negb (Z.eqb y x)) (uniq_first t)
  end.

Definition memZ (x : Z) (l : list Z) : bool := existsb (Z.eqb x) l.

(* positions (0-based) of the entries satisfying f *)
Fixpoint positions_from {A} (f : A -> bool) (i : nat) (l : list A) : list nat :=
  match l with
  | [] => []
  | x :: t => if f x then i :: positions_from f (S i) t else positions_from f (S i) t
  end.
Definition positions {A} (f : A -> bool) (l : list A) := positions_from f 0 l.

Definition select {A} (d : A) (l : list A) (idx : list nat) : list A :=
  map (fun i => nth i l d) idx.

(* stable insertion sort by a Z key *)
Section Sort.
  Context {A : Type} (key : A -> Z).
  Fixpoint insert_by (x : A) (l : list A) : list A :=
    match l with
    | [] => [x]
    | y :: t => if (key x <=? key y)%Z then x :: y :: t else y :: insert_by x t
    end.
  (* insertion from the right keeps equal keys in their original order *)
  Definition isort_by (l : list A) : list A := fold_right insert_by [] l.
End Sort.

Definition sortZ (l : list Z) : list Z := isort_by (fun x => x) l.
Definition sort_uniq (l : list Z) : list Z := sortZ (uniq_first l).

(* ---- facts ---- *)
Lemma In_filter_neq x y l :
  In y (filter (fun z => negb (Z.eqb z x)) l) <-> In y l /\ y <> x.
Proof.
  rewrite filter_In. split; intros [H1 H2]; split; auto.
  - apply negb_true_iff in H2. apply Z.eqb_neq in H2. exact H2.
  - apply negb_true_iff. apply Z.eqb_neq. exact H2.
Qed.

Lemma uniq_first_In x l : In x (uniq_first l) <-> In x l.
Proof.
  induction l as [|y t IH]; [reflexivity|]. cbn [uniq_first].
  split.
  - intros [H|H]; [left; exact H|]. apply In_filter_neq in H. right. apply IH. tauto.
  - intros [H|H]; [left; exact H|].
    destruct (Z.eq_dec x y) as [E|E]; [left; auto|]. right. apply In_filter_neq. split; [apply IH; exact H|exact E].
Qed.

Lemma NoDup_filter {A} (f : A -> bool) l : NoDup l -> NoDup (filter f l).
Proof.
  induction 1 as [|x l Hx Hl IH]; cbn; [constructor|].
  destruct (f x); [constructor; [rewrite filter_In; tauto|exact IH]|exact IH].
Qed.

Lemma uniq_first_NoDup l : NoDup (uniq_first l).
Proof.
  induction l as [|y t IH]; cbn [uniq_first]; constructor.
  - rewrite In_filter_neq. tauto.
  - apply NoDup_filter. exact IH.
Qed.

Section SortFacts.
  Context {A : Type} (key : A -> Z).

  Lemma insert_by_perm x l : Permutation (x :: l) (insert_by key x l).
  Proof.
    induction l as [|y t IH]; cbn [insert_by]; [reflexivity|].
    destruct (key x <=? key y)%Z; [reflexivity|].
    rewrite perm_swap. constructor. exact IH.
  Qed.

  Lemma isort_by_perm l : Permutation l (isort_by key l).
  Proof.
    induction l as [|x t IH]; cbn; [constructor|].
    rewrite <- insert_by_perm. constructor. exact IH.
  Qed.

  Definition key_le (a b : A) : Prop := (key a <= key b)%Z.

  Lemma insert_by_sorted x l : Sorted key_le l -> Sorted key_le (insert_by key x l).
  Proof.
    induction l as [|y t IH]; intros Hs; cbn [insert_by].
    - repeat constructor.
    - destruct (Z.leb_spec (key x) (key y)) as [Hle|Hgt].
      + constructor; [exact Hs|]. constructor. exact Hle.
      + inversion Hs as [|? ? Hs' Hhd]; subst. constructor; [apply IH; exact Hs'|].
        destruct t as [|z t']; cbn [insert_by].
        * constructor. unfold key_le. lia.
        * destruct (key x <=? key z)%Z; constructor; unfold key_le; try lia.
          inversion Hhd; subst. assumption.
  Qed.

  Lemma isort_by_sorted l : Sorted key_le (isort_by key l).
  Proof. induction l as [|x t IH]; cbn; [constructor|apply insert_by_sorted; exact IH]. Qed.

  (* stability: for every key value k the elements carrying k keep their relative order *)
  Lemma insert_by_filter k x l :
    filter (fun a => Z.eqb (key a) k) (insert_by key x l)
    = filter (fun a => Z.eqb (key a) k) (x :: l).
  Proof.
    induction l as [|y t IH]; cbn [insert_by]; [reflexivity|].
    destruct (Z.leb_spec (key x) (key y)) as [Hle|Hgt]; [reflexivity|].
    cbn [filter]. rewrite IH. cbn [filter].
    destruct (Z.eqb_spec (key x) k) as [Ex|Ex]; destruct (Z.eqb_spec (key y) k) as [Ey|Ey];
      try reflexivity. lia.
  Qed.

  Theorem isort_by_stable k l :
    filter (fun a => Z.eqb (key a) k) (isort_by key l) = filter (fun a => Z.eqb (key a) k) l.
  Proof.
    induction l as [|x t IH]; [reflexivity|]. cbn [isort_by fold_right].
    change (fold_right (insert_by key) [] t) with (isort_by key t).
    rewrite insert_by_filter. cbn [filter]. rewrite IH. reflexivity.
  Qed.
End SortFacts.

Lemma sortZ_perm l : Permutation l (sortZ l).
Proof. apply isort_by_perm. Qed.

Lemma sortZ_sorted l : Sorted Z.le (sortZ l).
Proof. apply (isort_by_sorted (fun x : Z => x)). Qed.

Lemma sort_uniq_In x l : In x (sort_uniq l) <-> In x l.
Proof.
  unfold sort_uniq. rewrite <- (uniq_first_In x l). split; intros H.
  - eapply Permutation_in; [apply Permutation_sym, sortZ_perm|exact H].
  - eapply Permutation_in; [apply sortZ_perm|exact H].
Qed.

Lemma sort_uniq_NoDup l : NoDup (sort_uniq l).
Proof. unfold sort_uniq. eapply Permutation_NoDup; [apply sortZ_perm|apply uniq_first_NoDup]. Qed.

(* sorted + no duplicates = strictly increasing *)
Lemma sorted_nodup_strict l : Sorted Z.le l -> NoDup l -> StronglySorted Z.lt l.
Proof.
  intros Hs Hn. apply Sorted_StronglySorted in Hs; [|intros a b c; lia].
  induction Hs as [|x l Hs IH Hall]; [constructor|].
  inversion Hn as [|? ? Hx Hn']; subst. constructor; [apply IH; exact Hn'|].
  rewrite Forall_forall in *. intros y Hy. specialize (Hall y Hy).
  assert (x <> y) by (intros ->; contradiction). lia.
Qed.

Theorem sort_uniq_strict l : StronglySorted Z.lt (sort_uniq l).
Proof. apply sorted_nodup_strict; [apply sortZ_sorted|apply sort_uniq_NoDup]. Qed.
