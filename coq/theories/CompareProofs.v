(* CompareProofs: symmetry, range, self-similarity and permutation invariance of the comparison
   measures (C03); invariances needed by C17. *)
From Coq Require Import List ZArith Reals Lra Lia Psatz Permutation Bool.
From RSA Require Import Prelude Vec VecR LinAlg CompareModel.
Import ListNotations.
Open Scope R_scope.

Ltac rsimp2 := cbn [n0 n1 nadd nmul nsub ndiv nofZ nsqrt nleb ROps] in *.

Lemma is_pos_R x : is_pos ROps x = true <-> 0 < x.
Proof.
  unfold is_pos, nltb. rsimp2. destruct (Rle_dec x 0); cbn [negb]; split; intros H; try lra; try discriminate; reflexivity.
Qed.

Lemma is_pos_R_false x : is_pos ROps x = false <-> x <= 0.
Proof.
  unfold is_pos, nltb. rsimp2. destruct (Rle_dec x 0); cbn [negb]; split; intros H; try lra; try discriminate; reflexivity.
Qed.

(* ---------- cosine ---------- *)
Theorem cosine_sym x y : cosine ROps x y = cosine ROps y x.
Proof.
  unfold cosine. rewrite andb_comm, (rdot_comm x y).
  destruct (_ && _); [|reflexivity]. rsimp2. unfold Rdiv. ring.
Qed.

Lemma sqrt_dot_sq x : sqrt (rdot x x) * sqrt (rdot x x) = rdot x x.
Proof. apply sqrt_sqrt. apply rdot_self_nonneg. Qed.

Theorem cosine_range x y : length x = length y -> -1 <= cosine ROps x y <= 1.
Proof.
  intros Hl. unfold cosine. rsimp2.
  destruct (is_pos ROps (sqrt (rdot x x))) eqn:Hx; [|cbn [andb]; lra].
  destruct (is_pos ROps (sqrt (rdot y y))) eqn:Hy; [|cbn [andb]; lra]. cbn [andb].
  apply is_pos_R in Hx, Hy.
  set (a := sqrt (rdot x x)) in *. set (b := sqrt (rdot y y)) in *.
  pose proof (cauchy_schwarz x y Hl) as CS.
  rewrite <- (sqrt_dot_sq x), <- (sqrt_dot_sq y) in CS. fold a b in CS.
  set (d := rdot x y) in *.
  assert (Hab : 0 < a * b) by nra.
  assert (Hd : -(a * b) <= d <= a * b).
  { assert (d * d <= (a * b) * (a * b)) by nra. split; nra. }
  unfold Rdiv. replace (d * / a * / b) with (d * / (a * b)) by (field; lra).
  split.
  - apply Rmult_le_reg_r with (r := a * b); [exact Hab|]. rewrite Rmult_assoc, Rinv_l by lra. lra.
  - apply Rmult_le_reg_r with (r := a * b); [exact Hab|]. rewrite Rmult_assoc, Rinv_l by lra. lra.
Qed.

Theorem cosine_self x : 0 < rdot x x -> cosine ROps x x = 1.
Proof.
  intros H. unfold cosine. rsimp2.
  assert (Hs : 0 < sqrt (rdot x x)) by (apply sqrt_lt_R0; exact H).
  rewrite (proj2 (is_pos_R _) Hs). cbn [andb].
  unfold Rdiv. rewrite <- (sqrt_dot_sq x) at 1. field. lra.
Qed.

(* ---------- permutation of conditions: both vectors permuted alike ---------- *)
Lemma map2_combine {X Y Z'} (f : X -> Y -> Z') x y : map2 f x y = map (fun p => f (fst p) (snd p)) (combine x y).
Proof. revert y; induction x as [|a x IH]; intros [|b y]; cbn; try reflexivity. rewrite IH. reflexivity. Qed.

Lemma rdot_perm x y x' y' : Permutation (combine x y) (combine x' y') -> rdot x y = rdot x' y'.
Proof.
  intros H. unfold dot. rewrite !map2_combine. apply rsum_perm. apply Permutation_map. exact H.
Qed.

Lemma combine_diag {X} (x : list X) : combine x x = map (fun a => (a, a)) x.
Proof. induction x as [|a x IH]; cbn; [reflexivity|]. rewrite IH. reflexivity. Qed.

Lemma map_fst_combine' {X Y} (l : list X) (r : list Y) : length l = length r -> map fst (combine l r) = l.
Proof.
  revert r; induction l as [|x l IH]; intros [|y r] H; try discriminate; [reflexivity|].
  cbn. f_equal. apply IH. injection H; auto.
Qed.
Lemma map_snd_combine' {X Y} (l : list X) (r : list Y) : length l = length r -> map snd (combine l r) = r.
Proof.
  revert r; induction l as [|x l IH]; intros [|y r] H; try discriminate; [reflexivity|].
  cbn. f_equal. apply IH. injection H; auto.
Qed.

Section Perm.
  Variables x y x' y' : list R.
  Hypothesis Hl : length x = length y.
  Hypothesis Hl' : length x' = length y'.
  Hypothesis HP : Permutation (combine x y) (combine x' y').

  Lemma perm_fst : Permutation x x'.
  Proof. rewrite <- (map_fst_combine' x y Hl), <- (map_fst_combine' x' y' Hl'). apply Permutation_map. exact HP. Qed.
  Lemma perm_snd : Permutation y y'.
  Proof. rewrite <- (map_snd_combine' x y Hl), <- (map_snd_combine' x' y' Hl'). apply Permutation_map. exact HP. Qed.

  Lemma rdot_self_perm (a a' : list R) : Permutation a a' -> rdot a a = rdot a' a'.
  Proof. intros H. apply rdot_perm. rewrite !combine_diag. apply Permutation_map. exact H. Qed.

  Theorem cosine_perm_invariant : cosine ROps x y = cosine ROps x' y'.
  Proof.
    unfold cosine. rewrite (rdot_perm x y x' y' HP), (rdot_self_perm x x' perm_fst), (rdot_self_perm y y' perm_snd).
    reflexivity.
  Qed.
End Perm.

Lemma mean_perm (a a' : list R) : Permutation a a' -> mean ROps a = mean ROps a'.
Proof. intros H. unfold mean, ofnat. rewrite (rsum_perm a a' H), (Permutation_length H). reflexivity. Qed.

Lemma combine_map_map {X Y X' Y'} (f : X -> X') (g : Y -> Y') (a : list X) (b : list Y) :
  combine (map f a) (map g b) = map (fun p => (f (fst p), g (snd p))) (combine a b).
Proof. revert b; induction a as [|u a IH]; intros [|v b]; cbn; try reflexivity. rewrite IH. reflexivity. Qed.

(* any measure that is (a perm-invariant measure) o (entrywise maps depending only on the multisets) *)
Lemma combine_map_perm (f g f' g' : R -> R) x y x' y' :
  Permutation (combine x y) (combine x' y') ->
  (forall a, f a = f' a) -> (forall b, g b = g' b) ->
  Permutation (combine (map f x) (map g y)) (combine (map f' x') (map g' y')).
Proof.
  intros HP Hf Hg. rewrite !combine_map_map.
  rewrite (map_ext (fun p => (f' (fst p), g' (snd p))) (fun p => (f (fst p), g (snd p))))
    by (intros p; rewrite Hf, Hg; reflexivity).
  apply Permutation_map. exact HP.
Qed.

Theorem corr_perm_invariant x y x' y' :
  length x = length y -> length x' = length y' -> Permutation (combine x y) (combine x' y') ->
  corr ROps x y = corr ROps x' y'.
Proof.
  intros Hl Hl' HP. unfold corr, center.
  apply cosine_perm_invariant; rewrite ?map_length; try assumption.
  apply combine_map_perm; [exact HP| |].
  - intros a. rewrite (mean_perm x x' (perm_fst x y x' y' Hl Hl' HP)). reflexivity.
  - intros b. rewrite (mean_perm y y' (perm_snd x y x' y' Hl Hl' HP)). reflexivity.
Qed.

(* ranks depend on the multiset only *)
Lemma filter_length_perm {X} (f : X -> bool) l l' : Permutation l l' -> length (filter f l) = length (filter f l').
Proof.
  induction 1 as [|a l l' _ IH|a b l|l l' l'' _ IH1 _ IH2]; cbn [filter].
  - reflexivity.
  - destruct (f a); cbn [length]; rewrite IH; reflexivity.
  - destruct (f a), (f b); reflexivity.
  - rewrite IH1. exact IH2.
Qed.

Lemma rank_of_perm (l l' : list R) a : Permutation l l' -> rank_of ROps l a = rank_of ROps l' a.
Proof.
  intros H. unfold rank_of, count.
  rewrite (filter_length_perm _ l l' H), (filter_length_perm (fun b => neqb ROps b a) l l' H). reflexivity.
Qed.

Theorem ranks_equivariant x y x' y' :
  length x = length y -> length x' = length y' -> Permutation (combine x y) (combine x' y') ->
  Permutation (combine (ranks ROps x) (ranks ROps y)) (combine (ranks ROps x') (ranks ROps y')).
Proof.
  intros Hl Hl' HP. unfold ranks. apply combine_map_perm; [exact HP| |].
  - intros a. apply rank_of_perm. exact (perm_fst x y x' y' Hl Hl' HP).
  - intros b. apply rank_of_perm. exact (perm_snd x y x' y' Hl Hl' HP).
Qed.

Theorem spearman_perm_invariant x y x' y' :
  length x = length y -> length x' = length y' -> Permutation (combine x y) (combine x' y') ->
  spearman ROps x y = spearman ROps x' y'.
Proof.
  intros Hl Hl' HP. unfold spearman. apply corr_perm_invariant.
  - unfold ranks. rewrite !map_length. exact Hl.
  - unfold ranks. rewrite !map_length. exact Hl'.
  - apply ranks_equivariant; assumption.
Qed.

Theorem rho_a_perm_invariant x y x' y' :
  length x = length y -> length x' = length y' -> Permutation (combine x y) (combine x' y') ->
  rho_a ROps x y = rho_a ROps x' y'.
Proof.
  intros Hl Hl' HP. unfold rho_a.
  pose proof (ranks_equivariant x y x' y' Hl Hl' HP) as HR.
  assert (Hlr : length (ranks ROps x) = length (ranks ROps y)) by (unfold ranks; rewrite !map_length; exact Hl).
  assert (Hlr' : length (ranks ROps x') = length (ranks ROps y')) by (unfold ranks; rewrite !map_length; exact Hl').
  rewrite (Permutation_length (perm_fst x y x' y' Hl Hl' HP)).
  f_equal. f_equal. unfold center. apply rdot_perm.
  apply combine_map_perm; [exact HR| |].
  - intros a. rewrite (mean_perm _ _ (perm_fst _ _ _ _ Hlr Hlr' HR)). reflexivity.
  - intros b. rewrite (mean_perm _ _ (perm_snd _ _ _ _ Hlr Hlr' HR)). reflexivity.
Qed.

(* ---------- Kendall tau-a ---------- *)
Lemma sgn_cases a b : sgn ROps a b = -1 \/ sgn ROps a b = 0 \/ sgn ROps a b = 1.
Proof.
  unfold sgn, nltb. rsimp2. destruct (Rle_dec b a), (Rle_dec a b); cbn [negb]; lra.
Qed.

Lemma sgn_antisym a b : sgn ROps a b = - sgn ROps b a.
Proof.
  unfold sgn, nltb. rsimp2. destruct (Rle_dec b a), (Rle_dec a b); cbn [negb]; lra.
Qed.

Lemma rsum_bound (l : list R) : (forall v, In v l -> -1 <= v <= 1) -> - INR (length l) <= rsum l <= INR (length l).
Proof.
  induction l as [|a l IH]; intros H; [cbn; lra|].
  rewrite rsum_cons. change (length (a :: l)) with (S (length l)). rewrite S_INR.
  pose proof (H a (or_introl eq_refl)).
  assert (- INR (length l) <= rsum l <= INR (length l)) by (apply IH; intros v Hv; apply H; right; exact Hv).
  lra.
Qed.

Lemma In_triu_map {X Y} (f : X -> X -> Y) l v : In v (triu_map f l) -> exists a b, v = f a b.
Proof.
  induction l as [|x t IH]; cbn [triu_map]; [contradiction|].
  rewrite in_app_iff. intros [H|H].
  - apply in_map_iff in H as (b & <- & _). exists x, b. reflexivity.
  - apply IH. exact H.
Qed.

Theorem con_minus_dis_bound x y :
  - INR (length (triu_map (fun p q : R * R => 0) (combine x y))) <= con_minus_dis ROps x y
  <= INR (length (triu_map (fun p q : R * R => 0) (combine x y))).
Proof.
  unfold con_minus_dis, pair_sum.
  assert (E : forall (f g : R * R -> R * R -> R) l, length (triu_map f l) = length (triu_map g l)).
  { intros f g l. induction l as [|a l IH]; cbn [triu_map]; [reflexivity|].
    rewrite !app_length, !map_length, IH. reflexivity. }
  rewrite (E _ (fun p q => nmul ROps (sgn ROps (fst p) (fst q)) (sgn ROps (snd p) (snd q)))).
  apply rsum_bound. intros v Hv. apply In_triu_map in Hv as (a & b & ->). rsimp2.
  destruct (sgn_cases (fst a) (fst b)) as [E1|[E1|E1]], (sgn_cases (snd a) (snd b)) as [E2|[E2|E2]];
    rewrite E1, E2; lra.
Qed.

Lemma triu_map_map {X Y W} (g : Y -> Y -> W) (h : X -> Y) l :
  triu_map g (map h l) = triu_map (fun a b => g (h a) (h b)) l.
Proof.
  induction l as [|x t IH]; cbn [map triu_map]; [reflexivity|]. rewrite IH, map_map. reflexivity.
Qed.

Lemma triu_map_ext {X W} (f g : X -> X -> W) l : (forall a b, f a b = g a b) -> triu_map f l = triu_map g l.
Proof.
  intros H. induction l as [|x t IH]; cbn [triu_map]; [reflexivity|]. rewrite IH. f_equal.
  apply map_ext. intros b. apply H.
Qed.

Lemma combine_swap {X Y} (x : list X) (y : list Y) : combine y x = map (fun p => (snd p, fst p)) (combine x y).
Proof. revert y; induction x as [|a x IH]; intros [|b y]; cbn; try reflexivity. rewrite IH. reflexivity. Qed.

(* tau-a is symmetric in its two arguments *)
Theorem tau_a_sym x y : length x = length y -> tau_a ROps x y = tau_a ROps y x.
Proof.
  intros Hl. unfold tau_a, n_pairs. rewrite Hl. f_equal.
  unfold con_minus_dis, pair_sum. rewrite (combine_swap x y), triu_map_map. f_equal.
  apply triu_map_ext. intros a b. cbn [fst snd]. rsimp2. lra.
Qed.

(* ---------- whitened measures: Cauchy-Schwarz for any symmetric positive-semidefinite form ---------- *)
Section PSDForm.
  Variable V : Type.
  Variables (vplus : V -> V -> V) (vsc : R -> V -> V).
  Variable B : V -> V -> R.
  Hypothesis B_sym : forall x y, B x y = B y x.
  Hypothesis B_add : forall x y z, B (vplus x y) z = B x z + B y z.
  Hypothesis B_scal : forall a x z, B (vsc a x) z = a * B x z.
  Hypothesis B_psd : forall x, 0 <= B x x.

  Lemma B_expand x y t : B (vplus x (vsc t y)) (vplus x (vsc t y)) = B x x + 2 * t * B x y + t * t * B y y.
  Proof.
    rewrite B_add, B_scal. rewrite (B_sym x (vplus x (vsc t y))), (B_sym y (vplus x (vsc t y))).
    rewrite !B_add, !B_scal. rewrite (B_sym y x). ring.
  Qed.

  Theorem psd_cauchy_schwarz x y : B x y * B x y <= B x x * B y y.
  Proof.
    pose proof (B_psd x) as Hx. pose proof (B_psd y) as Hy.
    destruct (Req_dec (B y y) 0) as [E|E].
    - destruct (Req_dec (B x y) 0) as [E2|E2]; [rewrite E2; nra|].
      exfalso. set (c := B x y) in *.
      pose proof (B_psd (vplus x (vsc (- (B x x + 1) / (2 * c)) y))) as H.
      rewrite B_expand, E in H. fold c in H.
      replace (2 * (- (B x x + 1) / (2 * c)) * c) with (- (B x x + 1)) in H by (field; exact E2). lra.
    - assert (Hpos : 0 < B y y) by lra.
      pose proof (B_psd (vplus x (vsc (- B x y / B y y) y))) as H. rewrite B_expand in H.
      replace (B x x + 2 * (- B x y / B y y) * B x y + - B x y / B y y * (- B x y / B y y) * B y y)
        with (B x x - B x y * B x y / B y y) in H by (field; lra).
      apply Rmult_le_reg_r with (r := / B y y); [apply Rinv_0_lt_compat; exact Hpos|].
      rewrite (Rmult_assoc (B x x)), Rinv_r by lra. unfold Rdiv in H. lra.
  Qed.

  Definition wsim (x y : V) : R := B x y / sqrt (B x x) / sqrt (B y y).

  Theorem wsim_sym x y : wsim x y = wsim y x.
  Proof. unfold wsim. rewrite (B_sym x y). unfold Rdiv. ring. Qed.

  Theorem wsim_self x : 0 < B x x -> wsim x x = 1.
  Proof.
    intros H. unfold wsim. assert (0 < sqrt (B x x)) by (apply sqrt_lt_R0; exact H).
    unfold Rdiv. rewrite <- (sqrt_sqrt (B x x)) at 1 by lra. field. lra.
  Qed.

  Theorem wsim_range x y : 0 < B x x -> 0 < B y y -> -1 <= wsim x y <= 1.
  Proof.
    intros Hx Hy. unfold wsim.
    set (a := sqrt (B x x)). set (b := sqrt (B y y)).
    assert (Ha : 0 < a) by (apply sqrt_lt_R0; exact Hx).
    assert (Hb : 0 < b) by (apply sqrt_lt_R0; exact Hy).
    pose proof (psd_cauchy_schwarz x y) as CS.
    rewrite <- (sqrt_sqrt (B x x)), <- (sqrt_sqrt (B y y)) in CS by lra. fold a b in CS.
    set (d := B x y) in *.
    assert (Hab : 0 < a * b) by nra.
    assert (Hd : -(a * b) <= d <= a * b).
    { assert (d * d <= (a * b) * (a * b)) by nra. split; nra. }
    unfold Rdiv. replace (d * / a * / b) with (d * / (a * b)) by (field; lra).
    split.
    - apply Rmult_le_reg_r with (r := a * b); [exact Hab|]. rewrite Rmult_assoc, Rinv_l by lra. lra.
    - apply Rmult_le_reg_r with (r := a * b); [exact Hab|]. rewrite Rmult_assoc, Rinv_l by lra. lra.
  Qed.
End PSDForm.

(* the model's whitened measure is [wsim] of the quadratic form of V^-1 *)
Theorem whitened_is_wsim Vi x y :
  whitened ROps Vi x y = wsim (list R) (fun a b => rdot a (matvec ROps Vi b)) x y.
Proof. reflexivity. Qed.

(* ---------- permutation invariance of tau-a: a sum over unordered pairs of a symmetric function ---------- *)
Lemma triu_sum_double {X} (f : X -> X -> R) (l : list X) :
  (forall a b, f a b = f b a) ->
  2 * rsum (triu_map f l) = rsum (map (fun a => rsum (map (f a) l)) l) - rsum (map (fun a => f a a) l).
Proof.
  intros Hs. induction l as [|x t IH]; [cbn; lra|].
  cbn [triu_map map]. rewrite rsum_app, !rsum_cons.
  rewrite (rsum_map_ext (fun a => rsum (map (f a) (x :: t))) (fun a => f a x + rsum (map (f a) t))) by (intros; reflexivity).
  rewrite rsum_map_add.
  rewrite (rsum_map_ext (fun a => f a x) (f x)) by (intros a _; apply Hs).
  lra.
Qed.

Lemma double_sum_perm {X} (f : X -> X -> R) l l' :
  Permutation l l' -> rsum (map (fun a => rsum (map (f a) l)) l) = rsum (map (fun a => rsum (map (f a) l')) l').
Proof.
  intros H. rewrite (rsum_perm _ _ (Permutation_map (fun a => rsum (map (f a) l)) H)).
  apply rsum_map_ext. intros a _. apply rsum_perm. apply Permutation_map. exact H.
Qed.

Theorem tau_a_perm_invariant x y x' y' :
  length x = length y -> length x' = length y' -> Permutation (combine x y) (combine x' y') ->
  tau_a ROps x y = tau_a ROps x' y'.
Proof.
  intros Hl Hl' HP. unfold tau_a, n_pairs.
  rewrite (Permutation_length (perm_fst x y x' y' Hl Hl' HP)). f_equal.
  unfold con_minus_dis, pair_sum.
  set (f := fun p q : R * R => nmul ROps (sgn ROps (fst p) (fst q)) (sgn ROps (snd p) (snd q))).
  assert (Hs : forall a b, f a b = f b a).
  { intros a b. unfold f. rsimp2. rewrite (sgn_antisym (fst a)), (sgn_antisym (snd a)). lra. }
  assert (E : forall l, rsum (triu_map f l)
            = (rsum (map (fun a => rsum (map (f a) l)) l) - rsum (map (fun a => f a a) l)) / 2).
  { intros l. pose proof (triu_sum_double f l Hs). lra. }
  rewrite !E. f_equal. f_equal.
  - apply double_sum_perm. exact HP.
  - apply rsum_perm. apply Permutation_map. exact HP.
Qed.

(* ---------- an RDM without length: similarity 0 by convention, on either side ---------- *)
Theorem cosine_zero_norm_l x y : rdot x x = 0 -> cosine ROps x y = 0.
Proof.
  intros H. unfold cosine. rsimp2. rewrite H, sqrt_0.
  replace (is_pos ROps 0) with false; [reflexivity|]. symmetry. apply is_pos_R_false. lra.
Qed.
Theorem cosine_zero_norm_r x y : rdot y y = 0 -> cosine ROps x y = 0.
Proof. intros H. rewrite cosine_sym. apply cosine_zero_norm_l. exact H. Qed.

(* a stack comparison is entry-wise: entry (i,j) is the measure of the i-th with the j-th RDM, whatever else is in the stacks *)
Theorem all_pairs_entrywise {X} (f : list R -> list R -> X) (a b : list (list R)) i j (d : X) :
  (i < length a)%nat -> (j < length b)%nat ->
  nth j (nth i (all_pairs f a b) []) d = f (nth i a []) (nth j b []).
Proof.
  intros Hi Hj. unfold all_pairs.
  rewrite (nth_indep _ [] (map (fun y => f [] y) b)) by (rewrite map_length; exact Hi).
  rewrite (map_nth (fun x => map (fun y => f x y) b) a [] i).
  rewrite (nth_indep _ d (f (nth i a []) [])) by (rewrite map_length; exact Hj).
  rewrite (map_nth (fun y => f (nth i a []) y) b [] j). reflexivity.
Qed.
