(* NoiseModel: noise covariance estimators of rsatoolbox.data.noise (C14). Rows = residual observations. *)
From Coq Require Import List ZArith Bool Arith.
From RSA Require Import Prelude Vec ListLib LinAlg CalcModel.
Import ListNotations.

Section Noise.
  Context {F : Type} (O : NumOps F).
  Notation "a + b" := (nadd O a b). Notation "a - b" := (nsub O a b).
  Notation "a * b" := (nmul O a b). Notation "a / b" := (ndiv O a b).

  Definition col_of (j : nat) (X : list (list F)) : list F := map (fun r => nthF O r j) X.
  (* _check_demean (2-d): subtract the column means *)
  Definition demean_cols (p : nat) (X : list (list F)) : list (list F) :=
    let m := vmean O p X in map (fun r => vsub O r m) X.
  (* residuals around the per-condition means (cov_from_unbalanced / the measurement tensor) *)
  Definition cond_residuals (p : nat) (lab : list Z) (X : list (list F)) : list (list F) :=
    map (fun lr => vsub O (snd lr) (vmean O p (rows_of lab X (fst lr)))) (combine lab X).

  (* sum over observations of x_ij x_ik, and of (x_ij x_ik)^2 *)
  Definition ss (p : nat) (X : list (list F)) : list (list F) :=
    map (fun j => map (fun k => dot O (col_of j X) (col_of k X)) (seq 0 p)) (seq 0 p).
  Definition ss2 (p : nat) (X : list (list F)) : list (list F) :=
    map (fun j => map (fun k => sum O (map2 (fun a b => (a * b) * (a * b)) (col_of j X) (col_of k X))) (seq 0 p)) (seq 0 p).
  Definition mdivs (M : list (list F)) (d : F) := map (fun r => vdivs O r d) M.
  Definition entry (M : list (list F)) (j k : nat) : F := nthF O (nth j M []) k.
  Definition msum (M : list (list F)) : F := sum O (map (sum O) M).
  Definition trace (p : nat) (M : list (list F)) : F := sum O (map (fun j => entry M j j) (seq 0 p)).
  Definition tabulate (p : nat) (f : nat -> nat -> F) : list (list F) :=
    map (fun j => map (fun k => f j k) (seq 0 p)) (seq 0 p).
  Definition kron (j k : nat) : F := if Nat.eqb j k then n1 O else n0 O.

  Definition cov_full (p : nat) (X : list (list F)) (dof : F) := mdivs (ss p X) dof.
  Definition cov_diag_only (p : nat) (X : list (list F)) (dof : F) :=
    tabulate p (fun j k => if Nat.eqb j k then entry (ss p X) j j / dof else n0 O).

  (* Ledoit-Wolf shrinkage towards a multiple of the identity *)
  Definition eye_lambda (p : nat) (X : list (list F)) : F * F * F :=   (* (b2 clipped, d2, m) *)
    let n := ofnat O (length X) in
    let s := mdivs (ss p X) n in
    let s2 := mdivs (ss2 p X) n in
    let b2 := msum (tabulate p (fun j k => entry s2 j k - entry s j k * entry s j k)) / n in
    let m := trace p s / ofnat O p in
    let d2 := msum (tabulate p (fun j k => let e := entry s j k - m * kron j k in e * e)) in
    (nmin O d2 b2, d2, m).
  Definition cov_eye (p : nat) (X : list (list F)) (dof : F) : list (list F) :=
    let n := ofnat O (length X) in
    let s := mdivs (ss p X) n in
    let '(b2, d2, m) := eye_lambda p X in
    (* d2 = 0: s already is a multiple of the identity (e.g. one channel): nothing to shrink *)
    if neqb O d2 (n0 O) then tabulate p (fun j k => entry s j k * n / dof)
    else tabulate p (fun j k => (((b2 / d2) * m) * kron j k + ((d2 - b2) / d2) * entry s j k) * n / dof).

  (* Schaefer-Strimmer shrinkage towards the diagonal; s_mean^2 needs no square root *)
  Definition diag_lambda (p : nat) (X : list (list F)) (dof : F) : F :=
    let n := ofnat O (length X) in
    let n1' := n - n1 O in
    let s := mdivs (ss p X) dof in
    let var j := entry s j j in
    let smean2 j k := (entry (ss p X) j k * entry (ss p X) j k) / ((var j * var k) * (n1' * n1')) in
    let s2mean j k := entry (ss2 p X) j k / ((var j * var k) * n1') in
    let var_hat j k := (n / (dof * dof)) * (s2mean j k - smean2 j k) in
    let off f := msum (tabulate p (fun j k => if Nat.eqb j k then n0 O else f j k)) in
    let lamb := if neqb O (off smean2) (n0 O) then n0 O else off var_hat / off smean2 in
    nmax O (nmin O lamb (n1 O)) (n0 O).
  Definition cov_shrink_diag (p : nat) (X : list (list F)) (dof : F) : list (list F) :=
    let s := mdivs (ss p X) dof in
    let lamb := diag_lambda p X dof in
    tabulate p (fun j k => if Nat.eqb j k then entry s j k else (n1 O - lamb) * entry s j k).
End Noise.

Inductive nmethod := NFull | NDiag | NEye | NShrinkDiag.
