(* Corr_C02: executable correspondence check for crossnobis / poisson_cv (C02). *)
From Coq Require Import List ZArith QArith Bool.
From RSA Require Export Prelude Vec ListLib CalcModel LinAlg CvModel.
Import ListNotations.

(* kind: 0 crossnobis with one precision, 1 crossnobis with one precision per fold, 2 poisson_cv *)
Record case := mkCase {
  c_kind : nat; c_p : nat; c_conds : list Z; c_default : bool; c_folds_given : list Z; c_rows : list (list Q);
  c_noise : list (list Q); c_noises : list (list (list Q));
  c_remove_mean : bool; c_pl : Q; c_pw : Q; c_lg : list (Q * Q);
  o_lab : list Z; o_vals : list Q }.

Definition c_folds (c : case) : list Z :=
  if c_default c then default_folds (c_conds c) else c_folds_given c.

Definition lookup (t : list (Q * Q)) (x : Q) : Q :=
  match find (fun p => Qeq_bool (fst p) x) t with Some p => snd p | None => 0 end.

Definition ident (x : list Q) := x.

(* precision of the averaged covariance of folds i and j (fold labels are 0..M-1) *)
Definition npair (noises : list (list (list Q))) (i j : Z) : list (list Q) :=
  let get k := match minv QOps (nth (Z.to_nat k) noises []) with Some v => v | None => [] end in
  match minv QOps (mscale QOps (1 # 2) (madd QOps (get i) (get j))) with Some v => v | None => [] end.

Definition model_vals (c : case) : list Q :=
  match c_kind c with
  | 0%nat => crossnobis_model QOps (c_noise c) (c_p c) (c_conds c) (c_folds c) (c_rows c)
               (if c_remove_mean c then center QOps else ident)
  | 1%nat => crossnobis_perfold_model QOps (c_p c) (c_conds c) (c_folds c) (c_rows c)
               (if c_remove_mean c then center QOps else ident) (npair (c_noises c))
  | _ => poisson_cv_model QOps (c_p c) (c_conds c) (c_folds c) (c_rows c)
               (prior QOps (c_pl c) (c_pw c)) (lookup (c_lg c))
  end.

(* the property's formula: mean over ordered pairs of distinct folds *)
Definition perfold_spec (c : case) : list Q :=
  let pre := if c_remove_mean c then center QOps else ident in
  let fs := sort_uniq (c_folds c) in
  let M := ofnat QOps (length fs) in
  triu_map (fun a b =>
    let d f := vsub QOps (pre (test_mean QOps (c_p c) (c_conds c) (c_folds c) (c_rows c) a f))
                         (pre (test_mean QOps (c_p c) (c_conds c) (c_folds c) (c_rows c) b f)) in
    Qred (sum QOps (map (fun n => sum QOps (map (fun m => bilin QOps (npair (c_noises c) m n) (d m) (d n))
                       (filter (fun m => negb (Z.eqb m n)) fs))) fs) / (M * (M - 1)) / ofnat QOps (c_p c)))
    (sort_uniq (c_conds c)).

Definition spec_vals (c : case) : list Q :=
  match c_kind c with
  | 0%nat => crossnobis_spec QOps (c_noise c) (c_p c) (c_conds c) (c_folds c) (c_rows c)
               (if c_remove_mean c then center QOps else ident)
  | 1%nat => perfold_spec c
  | _ => poisson_cv_spec QOps (c_p c) (c_conds c) (c_folds c) (c_rows c)
               (prior QOps (c_pl c) (c_pw c)) (lookup (c_lg c))
  end.

Definition check (c : case) : nat :=
  let labs := Zlist_eqb (o_lab c) (sort_uniq (c_conds c)) in
  verdict (labs && Qclose_list tol9 (model_vals c) (o_vals c))
          (labs && Qclose_list tol9 (spec_vals c) (o_vals c)).
