(* PyLib: the Gallina meaning of the Python / NumPy constructs that harness/pytrans.py emits.
   Everything the translator can produce is defined here, so the semantics it assigns to the
   source is readable in one place.  Python integers are Z (floor division and modulo as in
   Python for a non-zero divisor); NumPy index vectors are lists of Z; numbers that are not
   integers are values of the shared [NumOps F] structure. *)
From Coq Require Import List ZArith Bool Lia.
From RSA Require Import Prelude Vec.
Import ListNotations.
Open Scope Z_scope.

(* np.arange(a, b) for integers *)
Definition py_arange (a b : Z) : list Z := map (fun i => a + Z.of_nat i) (seq 0 (Z.to_nat (b - a))).

(* sorted, duplicate-free insertion: np.unique / np.setdiff1d return sorted unique values *)
Fixpoint zinsert (x : Z) (l : list Z) : list Z :=
  match l with
  | [] => [x]
  | y :: t => if x <? y then x :: l else if x =? y then l else y :: zinsert x t
  end.
Definition zsort_unique (l : list Z) : list Z := fold_right zinsert [] l.
Definition zmem (x : Z) (l : list Z) : bool := existsb (Z.eqb x) l.
(* np.setdiff1d(a, b) *)
Definition py_setdiff1d (a b : list Z) : list Z := zsort_unique (filter (fun x => negb (zmem x b)) a).
Definition py_len {A} (l : list A) : Z := Z.of_nat (length l).
(* [x[int(i)] for i in idx] for non-negative indices in range (Python raises IndexError beyond the end and wraps
   negative indices; the tie theorems are stated where neither happens) *)
Definition py_take (x : list Z) (idx : list Z) : list Z := map (fun i => nth (Z.to_nat i) x 0) idx.

(* int(np.ceil(np.sqrt(m))) for a non-negative integer m (exactness of the float square root for the
   magnitudes that occur is part of the trusted base and is sampled by the C10 check) *)
Definition py_ceil_sqrt (m : Z) : Z := let s := Z.sqrt m in if s * s =? m then s else s + 1.

Section Num.
  Context {F : Type} (O : NumOps F).
  Definition py_ofZ (z : Z) : F := nofZ O z.
  (* true division of two Python ints *)
  Definition py_truediv (a b : Z) : F := ndiv O (nofZ O a) (nofZ O b).
  (* np.abs of a float *)
  Definition py_abs (x : F) : F := if nleb O (n0 O) x then x else nsub O (n0 O) x.
End Num.

(* ---------------------------------------------------------------------------------------------- *)
(* facts used by the tie proofs *)

Fixpoint zincreasing (l : list Z) : Prop :=
  match l with
  | [] => True
  | x :: t => match t with [] => True | y :: _ => x < y end /\ zincreasing t
  end.

Lemma zsort_unique_increasing l : zincreasing l -> zsort_unique l = l.
Proof.
  induction l as [|x t IH]; [reflexivity|].
  intros [Hx Ht]. cbn [zsort_unique fold_right]. fold (zsort_unique t). rewrite (IH Ht).
  destruct t as [|y t']; [reflexivity|].
  cbn [zinsert]. destruct (Z.ltb_spec x y); [reflexivity|lia].
Qed.

Lemma zincreasing_map_filter_seq f a n :
  zincreasing (map Z.of_nat (filter f (seq a n))).
Proof.
  revert a. induction n as [|n IH]; intros a; [exact I|].
  cbn [seq filter]. destruct (f a) eqn:E; [|apply IH].
  cbn [map zincreasing]. split; [|apply IH].
  destruct (filter f (seq (S a) n)) as [|y t] eqn:Ey; [exact I|]. cbn [map].
  assert (In y (filter f (seq (S a) n))) as Hin by (rewrite Ey; left; reflexivity).
  apply filter_In in Hin. destruct Hin as [Hin _]. apply in_seq in Hin. lia.
Qed.

Lemma py_arange_nat_aux (a : nat) n b :
  map (fun i => Z.of_nat a + Z.of_nat i) (seq b n) = map Z.of_nat (seq (a + b) n).
Proof.
  revert b. induction n as [|n IH]; intros b; [reflexivity|].
  cbn [seq map]. f_equal; [lia|]. rewrite IH. replace (a + S b)%nat with (S (a + b)) by lia. reflexivity.
Qed.

Lemma py_arange_nat (a n : nat) :
  py_arange (Z.of_nat a) (Z.of_nat a + Z.of_nat n) = map Z.of_nat (seq a n).
Proof.
  unfold py_arange. replace (Z.of_nat a + Z.of_nat n - Z.of_nat a) with (Z.of_nat n) by lia.
  rewrite Nat2Z.id, py_arange_nat_aux. rewrite Nat.add_0_r. reflexivity.
Qed.

Lemma zmem_of_nat x l : zmem (Z.of_nat x) (map Z.of_nat l) = existsb (Nat.eqb x) l.
Proof.
  induction l as [|y t IH]; [reflexivity|]. cbn [map zmem existsb]. fold (zmem (Z.of_nat x) (map Z.of_nat t)).
  rewrite IH. f_equal. destruct (Nat.eqb_spec x y) as [->|Hn]; [apply Z.eqb_refl|].
  apply Z.eqb_neq. lia.
Qed.

Lemma filter_map_of_nat (f : Z -> bool) l :
  filter f (map Z.of_nat l) = map Z.of_nat (filter (fun x => f (Z.of_nat x)) l).
Proof.
  induction l as [|x t IH]; [reflexivity|]. cbn [map filter]. destruct (f (Z.of_nat x)); cbn [map]; rewrite IH; reflexivity.
Qed.

(* the complement of an index list inside 0..n-1, as np.setdiff1d(np.arange(n), idx) computes it *)
Lemma py_setdiff1d_arange (n : nat) (idx : list nat) :
  py_setdiff1d (py_arange 0 (Z.of_nat n)) (map Z.of_nat idx)
  = map Z.of_nat (filter (fun j => negb (existsb (Nat.eqb j) idx)) (seq 0 n)).
Proof.
  unfold py_setdiff1d. change 0 with (Z.of_nat 0) at 1.
  replace (Z.of_nat n) with (Z.of_nat 0 + Z.of_nat n) by lia. rewrite py_arange_nat.
  rewrite filter_map_of_nat.
  rewrite (filter_ext _ (fun j => negb (existsb (Nat.eqb j) idx))).
  2:{ intros x. rewrite zmem_of_nat. reflexivity. }
  apply zsort_unique_increasing, zincreasing_map_filter_seq.
Qed.

Lemma py_take_of_nat (x : list Z) (idx : list nat) :
  py_take x (map Z.of_nat idx) = map (fun i => nth i x 0) idx.
Proof. unfold py_take. rewrite map_map. apply map_ext. intros i. rewrite Nat2Z.id. reflexivity. Qed.

(* ---------------------------------------------------------------------------------------------- *)
(* NumPy matrix expressions (2-D arrays as lists of rows), as emitted for the RDM estimators *)
Section Mat.
  Context {F : Type} (O : NumOps F).
  Definition np_mmap (f : F -> F) (A : list (list F)) : list (list F) := map (map f) A.
  Definition np_mmap2 (f : F -> F -> F) (A B : list (list F)) : list (list F) := map2 (map2 f) A B.
  (* A < c as a boolean mask, and the masked assignment A[M] = v *)
  Definition np_mcmp (p : F -> bool) (A : list (list F)) : list (list bool) := map (map p) A.
  Definition np_mwhere (M : list (list bool)) (v : F) (A : list (list F)) : list (list F) :=
    map2 (map2 (fun (b : bool) x => if b then v else x)) M A.
  (* v.max() / v.min() of a non-empty vector (NumPy raises on an empty one; RDM rows never are) *)
  (* np.std of a vector (population standard deviation), and the mean over the rows of a stack, entry by entry, as a 1 x n array *)
  Definition py_std (x : list F) : F :=
    let m := mean O x in nsqrt O (mean O (map (fun v => nmul O (nsub O v m) (nsub O v m)) x)).
  Definition np_colmean (A : list (list F)) : list F :=
    match A with [] => [] | x :: _ => vdivs O (vsum O (length x) A) (ofnat O (length A)) end.
  Definition py_max (l : list F) : F := fold_right (nmax O) (hd (n0 O) l) l.
  Definition py_min (l : list F) : F := fold_right (nmin O) (hd (n0 O) l) l.
  (* A @ B.T, np.dot(A, B.T), np.einsum('ik,jk', A, B) *)
  Definition np_matmulT (A B : list (list F)) : list (list F) := map (fun a => map (fun b => dot O a b) B) A.
  (* (n,1) op (1,m) broadcast: entry (i,j) = f col_i row_j *)
  Definition np_outer (f : F -> F -> F) (col row : list F) : list (list F) := map (fun x => map (fun y => f x y) row) col.
  Definition np_diag (A : list (list F)) : list F := map (fun i => nth i (nth i A []) (n0 O)) (seq 0 (length A)).
  Definition np_T (A : list (list F)) : list (list F) :=
    map (fun j => map (fun r => nth j r (n0 O)) A) (seq 0 (length (hd [] A))).
  (* X[np.triu(ones, k=1)]: strict upper triangle, row-major *)
  Fixpoint np_triu_from (k : nat) (A : list (list F)) : list F :=
    match A with [] => [] | r :: t => skipn (S k) r ++ np_triu_from (S k) t end.
  Definition np_triu (A : list (list F)) : list F := np_triu_from 0 A.
  (* np.sum(A, axis=1), np.einsum('ij,ij->i', A, B) *)
  Definition np_rowsum (A : list (list F)) : list F := map (sum O) A.
  Definition np_rowdot (A B : list (list F)) : list F := map2 (dot O) A B.
  (* A / v[:, None] *)
  Definition np_rowscale_div (A : list (list F)) (v : list F) : list (list F) := map2 (fun a s => vdivs O a s) A v.
  (* A / v[None, :] and A - v[:, None] *)
  Definition np_colscale_div (A : list (list F)) (v : list F) : list (list F) := map (fun a => map2 (ndiv O) a v) A.
  Definition np_rowshift_sub (A : list (list F)) (v : list F) : list (list F) :=
    map2 (fun a m => map (fun x => nsub O x m) a) A v.

  (* the matrix of a binary function over a list of items (patterns, or pairs of training and test patterns) *)
  Definition pairwise {X} (f : X -> X -> F) (rows : list X) : list (list F) :=
    map (fun a => map (fun b => f a b) rows) rows.

  Lemma map2_map_map {X Y Z W} (f : Y -> Z -> W) (g : X -> Y) (h : X -> Z) (l : list X) :
    map2 f (map g l) (map h l) = map (fun x => f (g x) (h x)) l.
  Proof. induction l as [|x t IH]; [reflexivity|]. cbn [map map2]. rewrite IH. reflexivity. Qed.

  Lemma matmulT_pairwise rows : np_matmulT rows rows = pairwise (dot O) rows.
  Proof. reflexivity. Qed.

  Lemma matmulT_pairwise_r (g : list F -> list F) rows :
    np_matmulT rows (map g rows) = pairwise (fun a b => dot O a (g b)) rows.
  Proof. unfold np_matmulT, pairwise. apply map_ext. intros a. rewrite map_map. reflexivity. Qed.

  (* A @ B.T for two stacks of patterns that are listed alike (training and test means of the same conditions) *)
  Lemma matmulT_pairwise_zip {X} (u v : X -> list F) (zs : list X) :
    np_matmulT (map u zs) (map v zs) = pairwise (fun a b => dot O (u a) (v b)) zs.
  Proof. unfold np_matmulT, pairwise. rewrite map_map. apply map_ext. intros a. rewrite map_map. reflexivity. Qed.

  Lemma mmap2_pairwise {X} op (f g : X -> X -> F) rows :
    np_mmap2 op (pairwise f rows) (pairwise g rows) = pairwise (fun a b => op (f a b) (g a b)) rows.
  Proof.
    unfold np_mmap2, pairwise. rewrite map2_map_map. apply map_ext. intros a. apply map2_map_map.
  Qed.

  Lemma mmap_pairwise {X} h (f : X -> X -> F) rows : np_mmap h (pairwise f rows) = pairwise (fun a b => h (f a b)) rows.
  Proof. unfold np_mmap, pairwise. rewrite map_map. apply map_ext. intros a. apply map_map. Qed.

  Lemma outer_pairwise {X} op (u v : X -> F) rows :
    np_outer op (map u rows) (map v rows) = pairwise (fun a b => op (u a) (v b)) rows.
  Proof. unfold np_outer, pairwise. rewrite map_map. apply map_ext. intros a. apply map_map. Qed.

  Lemma map_nth_seq_gen {X Y} (h : X -> Y) (l : list X) (d : X) :
    map (fun j => h (nth j l d)) (seq 0 (length l)) = map h l.
  Proof.
    induction l as [|x t IH]; [reflexivity|]. cbn [length seq map nth]. f_equal.
    rewrite <- seq_shift, map_map. exact IH.
  Qed.

  Lemma diag_pairwise {X} (d : X) (f : X -> X -> F) rows : np_diag (pairwise f rows) = map (fun a => f a a) rows.
  Proof.
    unfold np_diag, pairwise. rewrite map_length.
    rewrite <- (map_nth_seq_gen (fun a => f a a) rows d).
    apply map_ext_in. intros i Hi. apply in_seq in Hi.
    rewrite (nth_indep _ [] (map (fun b => f d b) rows)) by (rewrite map_length; lia).
    rewrite (map_nth (fun a => map (fun b => f a b) rows) rows d i).
    rewrite (nth_indep _ (n0 O) (f (nth i rows d) d)) by (rewrite map_length; lia).
    rewrite (map_nth (fun b => f (nth i rows d) b) rows d i). reflexivity.
  Qed.

  Lemma T_pairwise {X} (d : X) (f : X -> X -> F) rows : np_T (pairwise f rows) = pairwise (fun a b => f b a) rows.
  Proof.
    unfold np_T, pairwise.
    assert (length (hd [] (map (fun a => map (fun b => f a b) rows) rows)) = length rows) as Hl.
    { destruct rows as [|r0 t]; [reflexivity|]. cbn [map hd length]. rewrite map_length. reflexivity. }
    rewrite Hl.
    rewrite <- (map_nth_seq_gen (fun b => map (fun a => f a b) rows) rows d).
    apply map_ext_in. intros j Hj. apply in_seq in Hj. rewrite map_map. apply map_ext. intros a.
    rewrite (nth_indep _ (n0 O) (f a d)) by (rewrite map_length; lia).
    rewrite (map_nth (fun b => f a b) rows d j). reflexivity.
  Qed.

  Lemma triu_from_pairwise {X} (f : X -> X -> F) (pre rows : list X) :
    np_triu_from (length pre) (map (fun a => map (fun b => f a b) (pre ++ rows)) rows) = triu_map f rows.
  Proof.
    revert pre. induction rows as [|r t IH]; intros pre; [reflexivity|].
    cbn [map np_triu_from triu_map]. f_equal.
    - rewrite map_app. cbn [map]. replace (S (length pre)) with (length (map (fun b => f r b) pre ++ [f r r]))
        by (rewrite app_length, map_length; cbn; lia).
      change (map (fun b => f r b) pre ++ f r r :: map (fun b => f r b) t)
        with (map (fun b => f r b) pre ++ [f r r] ++ map (fun b => f r b) t).
      rewrite app_assoc, skipn_app, skipn_all, Nat.sub_diag. reflexivity.
    - specialize (IH (pre ++ [r])). rewrite app_length in IH. cbn [length] in IH.
      replace (length pre + 1)%nat with (S (length pre)) in IH by lia.
      rewrite <- IH. f_equal. apply map_ext. intros a. rewrite <- app_assoc. reflexivity.
  Qed.

  Lemma triu_pairwise {X} (f : X -> X -> F) rows : np_triu (pairwise f rows) = triu_map f rows.
  Proof. exact (triu_from_pairwise f [] rows). Qed.

  (* A @ N for a square / rectangular N: every row of A times N, as the linear combination of the rows of N *)
  Definition np_matmul (A N : list (list F)) : list (list F) :=
    let q := length (hd [] N) in map (fun a => vsum O q (map2 (vscale O) a N)) A.
End Mat.

(* np.kron(np.ones((k,)), v) and np.kron(v, np.ones((k,))) for 1-D v: v tiled k times / every entry repeated k times *)
Definition py_tile (k : Z) (v : list Z) : list Z := concat (repeat v (Z.to_nat k)).
Definition py_repeat_each (v : list Z) (k : Z) : list Z := flat_map (fun x => repeat x (Z.to_nat k)) v.

Lemma py_tile_of_nat (k : nat) (l : list nat) :
  py_tile (Z.of_nat k) (map Z.of_nat l) = map Z.of_nat (concat (repeat l k)).
Proof.
  unfold py_tile. rewrite Nat2Z.id. induction k as [|k IH]; [reflexivity|].
  cbn [repeat concat]. rewrite map_app, IH. reflexivity.
Qed.
Lemma py_repeat_each_of_nat (l : list nat) (k : nat) :
  py_repeat_each (map Z.of_nat l) (Z.of_nat k) = map Z.of_nat (flat_map (fun q => repeat q k) l).
Proof.
  unfold py_repeat_each. rewrite Nat2Z.id. induction l as [|x l IH]; [reflexivity|].
  cbn [map flat_map]. rewrite map_app, IH. f_equal. clear IH.
  induction k as [|k IHk]; [reflexivity|]. cbn [repeat map]. rewrite IHk. reflexivity.
Qed.
Lemma py_arange0_nat (n : nat) : py_arange 0 (Z.of_nat n) = map Z.of_nat (seq 0 n).
Proof. change 0 with (Z.of_nat 0). replace (Z.of_nat n) with (Z.of_nat 0 + Z.of_nat n) by lia. apply py_arange_nat. Qed.
