(* PyLib: the Gallina meaning of the Python / NumPy constructs that harness/pytrans.py emits.
   Everything the translator can produce is defined here, so the semantics it assigns to the
   source is readable in one place.  Python integers are Z (floor division and modulo as in
   Python for a non-zero divisor); NumPy index vectors are lists of Z; numbers that are not
   integers are values of the shared [NumOps F] structure. *)
From Coq Require Import List ZArith Bool Lia.
From RSA Require Import Prelude Vec.
Import ListNotations.
Open Scope Z_scope.

(* np.arange(a, b) for integers *)
Definition py_arange (a b : Z) : list Z := map (fun i => a + Z.of_nat i) (seq 0 (Z.to_nat (b - a))).

(* sorted, duplicate-free insertion: np.unique / np.setdiff1d return sorted unique values *)
Fixpoint zinsert (x : Z) (l : list Z) : list Z :=
  match l with
  | [] => [x]
  | y :: t => if x <? y then x :: l else if x =? y then l else y :: zinsert x t
  end.
Definition zsort_unique (l : list Z) : list Z := fold_right zinsert [] l.
Definition zmem (x : Z) (l : list Z) : bool := existsb (Z.eqb x) l.
(* np.setdiff1d(a, b) *)
Definition py_setdiff1d (a b : list Z) : list Z := zsort_unique (filter (fun x => negb (zmem x b)) a).
Definition py_len {A} (l : list A) : Z := Z.of_nat (length l).
(* [x[int(i)] for i in idx] for non-negative indices in range (Python raises IndexError beyond the end and wraps
   negative indices; the tie theorems are stated where neither happens) *)
Definition py_take (x : list Z) (idx : list Z) : list Z := map (fun i => nth (Z.to_nat i) x 0) idx.

(* int(np.ceil(np.sqrt(m))) for a non-negative integer m (exactness of the float square root for the
   magnitudes that occur is part of the trusted base and is sampled by the C10 check) *)
Definition py_ceil_sqrt (m : Z) : Z := let s := Z.sqrt m in if s * s =? m then s else s + 1.

Section Num.
  Context {F : Type} (O : NumOps F).
  Definition py_ofZ (z : Z) : F := nofZ O z.
  (* true division of two Python ints *)
  Definition py_truediv (a b : Z) : F := ndiv O (nofZ O a) (nofZ O b).
End Num.

(* ---------------------------------------------------------------------------------------------- *)
(* facts used by the tie proofs *)

Fixpoint zincreasing (l : list Z) : Prop :=
  match l with
  | [] => True
  | x :: t => match t with [] => True | y :: _ => x < y end /\ zincreasing t
  end.

Lemma zsort_unique_increasing l : zincreasing l -> zsort_unique l = l.
Proof.
  induction l as [|x t IH]; [reflexivity|].
  intros [Hx Ht]. cbn [zsort_unique fold_right]. fold (zsort_unique t). rewrite (IH Ht).
  destruct t as [|y t']; [reflexivity|].
  cbn [zinsert]. destruct (Z.ltb_spec x y); [reflexivity|lia].
Qed.

Lemma zincreasing_map_filter_seq f a n :
  zincreasing (map Z.of_nat (filter f (seq a n))).
Proof.
  revert a. induction n as [|n IH]; intros a; [exact I|].
  cbn [seq filter]. destruct (f a) eqn:E; [|apply IH].
  cbn [map zincreasing]. split; [|apply IH].
  destruct (filter f (seq (S a) n)) as [|y t] eqn:Ey; [exact I|]. cbn [map].
  assert (In y (filter f (seq (S a) n))) as Hin by (rewrite Ey; left; reflexivity).
  apply filter_In in Hin. destruct Hin as [Hin _]. apply in_seq in Hin. lia.
Qed.

Lemma py_arange_nat_aux (a : nat) n b :
  map (fun i => Z.of_nat a + Z.of_nat i) (seq b n) = map Z.of_nat (seq (a + b) n).
Proof.
  revert b. induction n as [|n IH]; intros b; [reflexivity|].
  cbn [seq map]. f_equal; [lia|]. rewrite IH. replace (a + S b)%nat with (S (a + b)) by lia. reflexivity.
Qed.

Lemma py_arange_nat (a n : nat) :
  py_arange (Z.of_nat a) (Z.of_nat a + Z.of_nat n) = map Z.of_nat (seq a n).
Proof.
  unfold py_arange. replace (Z.of_nat a + Z.of_nat n - Z.of_nat a) with (Z.of_nat n) by lia.
  rewrite Nat2Z.id, py_arange_nat_aux. rewrite Nat.add_0_r. reflexivity.
Qed.

Lemma zmem_of_nat x l : zmem (Z.of_nat x) (map Z.of_nat l) = existsb (Nat.eqb x) l.
Proof.
  induction l as [|y t IH]; [reflexivity|]. cbn [map zmem existsb]. fold (zmem (Z.of_nat x) (map Z.of_nat t)).
  rewrite IH. f_equal. destruct (Nat.eqb_spec x y) as [->|Hn]; [apply Z.eqb_refl|].
  apply Z.eqb_neq. lia.
Qed.

Lemma filter_map_of_nat (f : Z -> bool) l :
  filter f (map Z.of_nat l) = map Z.of_nat (filter (fun x => f (Z.of_nat x)) l).
Proof.
  induction l as [|x t IH]; [reflexivity|]. cbn [map filter]. destruct (f (Z.of_nat x)); cbn [map]; rewrite IH; reflexivity.
Qed.

(* the complement of an index list inside 0..n-1, as np.setdiff1d(np.arange(n), idx) computes it *)
Lemma py_setdiff1d_arange (n : nat) (idx : list nat) :
  py_setdiff1d (py_arange 0 (Z.of_nat n)) (map Z.of_nat idx)
  = map Z.of_nat (filter (fun j => negb (existsb (Nat.eqb j) idx)) (seq 0 n)).
Proof.
  unfold py_setdiff1d. change 0 with (Z.of_nat 0) at 1.
  replace (Z.of_nat n) with (Z.of_nat 0 + Z.of_nat n) by lia. rewrite py_arange_nat.
  rewrite filter_map_of_nat.
  rewrite (filter_ext _ (fun j => negb (existsb (Nat.eqb j) idx))).
  2:{ intros x. rewrite zmem_of_nat. reflexivity. }
  apply zsort_unique_increasing, zincreasing_map_filter_seq.
Qed.

Lemma py_take_of_nat (x : list Z) (idx : list nat) :
  py_take x (map Z.of_nat idx) = map (fun i => nth i x 0) idx.
Proof. unfold py_take. rewrite map_map. apply map_ext. intros i. rewrite Nat2Z.id. reflexivity. Qed.
