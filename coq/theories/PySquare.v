(* PySquare: the square form of a vector of pair values (scipy squareform / batch_to_matrices of one vector), as emitted by
   harness/pytrans.py; part of the meaning of the translated constructs like PyLib.v. *)
From Coq Require Import List ZArith Bool Lia Arith.
From RSA Require Import Prelude Vec PyLib.
Import ListNotations.
Local Open Scope nat_scope.

Section Sq.
  Context {F : Type} (O : NumOps F).
  (* batch_to_matrices(np.array([v]))[0][0] / scipy's squareform: the symmetric matrix with zero diagonal whose upper triangle,
     row by row, is v; the number of conditions is the one _get_n_from_length computes: ceil(sqrt(2 len)) *)
  Definition py_sq_pos (n i j : nat) : nat := i * n - i * (i + 1) / 2 + (j - i - 1).
  Definition py_sq_n (len : nat) : nat := Z.to_nat (py_ceil_sqrt (2 * Z.of_nat len)%Z).
  Definition py_squareform (v : list F) : list (list F) :=
    let n := py_sq_n (length v) in
    map (fun i => map (fun j => if Nat.eqb i j then n0 O else nth (py_sq_pos n (Nat.min i j) (Nat.max i j)) v (n0 O)) (seq 0 n))
        (seq 0 n).

  Lemma nth_map_seq {X} (f : nat -> X) n i d : i < n -> nth i (map f (seq 0 n)) d = f i.
  Proof.
    intros H. rewrite (nth_indep _ d (f 0)) by (rewrite map_length, seq_length; exact H).
    rewrite (map_nth f (seq 0 n) 0 i), seq_nth by exact H. reflexivity.
  Qed.

  Lemma py_squareform_entry v i j : let n := py_sq_n (length v) in i < n -> j < n ->
    nth j (nth i (py_squareform v) []) (n0 O)
    = if Nat.eqb i j then n0 O else nth (py_sq_pos n (Nat.min i j) (Nat.max i j)) v (n0 O).
  Proof.
    cbv zeta. intros Hi Hj. unfold py_squareform. cbv zeta.
    rewrite (nth_map_seq (fun i => map _ (seq 0 _)) _ i []) by exact Hi.
    rewrite (nth_map_seq _ _ j (n0 O)) by exact Hj. reflexivity.
  Qed.

  Lemma py_squareform_symmetric v i j : i < py_sq_n (length v) -> j < py_sq_n (length v) ->
    nth j (nth i (py_squareform v) []) (n0 O) = nth i (nth j (py_squareform v) []) (n0 O).
  Proof.
    intros Hi Hj. rewrite !py_squareform_entry by assumption. rewrite (Nat.eqb_sym j i), (Nat.min_comm j i), (Nat.max_comm j i).
    reflexivity.
  Qed.

  Lemma py_squareform_diag v i : i < py_sq_n (length v) -> nth i (nth i (py_squareform v) []) (n0 O) = n0 O.
  Proof. intros Hi. rewrite py_squareform_entry by assumption. rewrite Nat.eqb_refl. reflexivity. Qed.

  Lemma mmap_entry (h : F -> F) (A : list (list F)) i j : 
    i < length A -> j < length (nth i A []) -> nth j (nth i (np_mmap h A) []) (h (n0 O)) = h (nth j (nth i A []) (n0 O)).
  Proof.
    intros Hi Hj. unfold np_mmap. rewrite (nth_indep _ [] (map h [])) by (rewrite map_length; exact Hi).
    rewrite (map_nth (map h) A [] i). rewrite (map_nth h (nth i A []) (n0 O) j). reflexivity.
  Qed.
End Sq.

Section Sq2.
  Context {F : Type} (O : NumOps F).
  Lemma py_squareform_length (v : list F) : length (py_squareform O v) = py_sq_n (length v).
  Proof. unfold py_squareform. cbv zeta. rewrite map_length, seq_length. reflexivity. Qed.
  Lemma py_squareform_row_length (v : list F) i : i < py_sq_n (length v) -> length (nth i (py_squareform O v) []) = py_sq_n (length v).
  Proof.
    intros Hi. unfold py_squareform. cbv zeta. rewrite (nth_map_seq (fun i => map _ (seq 0 _)) _ i []) by exact Hi.
    rewrite map_length, seq_length. reflexivity.
  Qed.
End Sq2.
