(* Corr_C08: executable correspondence for the model classes and fitters. *)
From Coq Require Import List ZArith QArith Qabs Bool Arith.
From RSA Require Export Prelude Vec ListLib LinAlg CompareModel NanModel RdmModel CeilModel FitModel Corr_C03 Corr_C07.
Import ListNotations.

Definition fmeth (m : nat) : fmethod :=
  match m with 0%nat => FCosine | 1%nat => FCorr | 2%nat => FCosineCov | _ => FCorrCov end.

(* RDM vector over n conditions, resampled to the (sorted) selection; pairs of one condition with itself are missing *)
Definition sub_vec (n : nat) (sel : list nat) (v : list Q) : list (option Q) :=
  map (fun ab => let i := nth (fst ab) sel 0%nat in let j := nth (snd ab) sel 0%nat in
                 if Nat.eqb i j then None else Some (nth (vec_index n (Nat.min i j) (Nat.max i j)) v 0))
      (pair_list (length sel)).

Record fit_problem := mkFit {
  fp_basis : list (list Q);      (* present entries only *)
  fp_data : list (list Q);
  fp_W : option (list (list Q));
  fp_p : nat }.

Definition qidentity (k : nat) : list (list Q) := identity QOps k.

(* the hypotheses of the whitened optimality theorems, checked on the matrices that are actually used: the inverse is
   entrywise symmetric (FormProofs: hence a symmetric form) and V has positive pivots under elimination without row
   exchanges (V positive definite, hence also its inverse; the latter implication is not proved) *)
Definition mat_symb (W : list (list Q)) : bool :=
  let n := length W in
  forallb (fun i => forallb (fun j => Qeq_bool (nth j (nth i W []) 0) (nth i (nth j W []) 0)) (seq 0 n)) (seq 0 n).
Fixpoint pivots_pos (fuel : nat) (M : list (list Q)) : bool :=
  match fuel, M with
  | S k, r :: rest =>
      let p := hd 0 r in
      if Qle_bool p 0 then false
      else pivots_pos k (map (fun r' => tl (map2 (fun a b => Qred (b - (hd 0 r' / p) * a)) r r')) rest)
  | _, _ => true
  end.

Definition prepare (m n : nat) (sel : list nat) (basis : list (list Q)) (sigma : option (list (list Q)))
    (data : list (list (option Q))) : option fit_problem :=
  let k := length sel in
  let bs := map (sub_vec n sel) basis in
  let mask := mask_of (hd [] bs) in
  if forallb (fun v => bools_eqb (mask_of v) mask) (bs ++ data) then
    let sb := map strip bs in let sd := map strip data in
    if whitened_method (fmeth m) then
      let Sg := match sigma with Some s => s | None => qidentity k end in
      let V := v_masked QOps k Sg mask in
      match minv QOps V with
      | Some Wi => if mat_symb Wi && pivots_pos (length V) V then Some (mkFit sb sd (Some Wi) (length (hd [] sb))) else None
      | None => None
      end
    else Some (mkFit sb sd None (length (hd [] sb)))
  else None.

(* square roots (norms of the training RDMs, scores) are evaluated in 30-digit fixed point; the linear algebra
   (whitening matrix, normal equations, KKT conditions) exactly *)
Definition fscore (m : nat) (fp : fit_problem) (theta : list Q) : Q :=
  score QOpsF (fmeth m) (fp_W fp) (fp_data fp) (lincomb QOpsF (fp_p fp) theta (fp_basis fp)).
Definition ftarget (m : nat) (fp : fit_problem) : list Q := fit_target QOpsF (fmeth m) (fp_W fp) (fp_data fp).
(* normalised fits have unit norm; a fit of norm zero is returned as it is *)
Definition unit_norm (theta : list Q) : bool :=
  Qclose tol6 1 (dot QOps theta theta) || forallb (fun x => Qeq_bool x 0) theta.
Definition Qabs_le (a b tol : Q) : bool := Qle_bool (Qabs (a - b)) tol.
Definition tol7 : Q := 1 # 10000000.
Definition tol4 : Q := 1 # 10000.
Definition tol5 : Q := 5 # 100000.

Inductive fcase :=
| FRegress (nn : bool) (m n : nat) (sel : list nat) (basis : list (list Q)) (sigma : option (list (list Q)))
           (data : list (list (option Q))) (normalize : bool) (theta : list Q)
| FSelect (m n : nat) (sel : list nat) (basis : list (list Q)) (sigma : option (list (list Q)))
          (data : list (list (option Q))) (idx : nat)
| FInterp (m n : nat) (sel : list nat) (basis : list (list Q)) (sigma : option (list (list Q)))
          (data : list (list (option Q))) (theta : list Q)
| FOptimize (positive : bool) (m n : nat) (sel : list nat) (basis : list (list Q)) (sigma : option (list (list Q)))
          (data : list (list (option Q))) (normalize : bool) (theta : list Q)
| FPredict (cls : nat) (p : nat) (basis : list (list Q)) (theta : list Q) (sel_idx : nat)
           (pred pred_rdm pred_rebuilt : list Q).

Definition fcheck (c : fcase) : nat :=
  match c with
  | FRegress nn m n sel basis sigma data normalize theta =>
      match prepare m n sel basis sigma data with
      | Some fp =>
        let fit := if nn then fit_regress_nn_with QOps (fmeth m) (fp_W fp) (fp_basis fp) (ftarget m fp) normalize
                   else fit_regress_with QOps (fmeth m) (fp_W fp) (fp_basis fp) (ftarget m fp) normalize in
        match fit with
        | Some t =>
          let obs := Qabs_le (fscore m fp theta) (fscore m fp t) tol7
                     && (negb normalize || unit_norm theta)
                     && (negb nn || forallb (fun x => Qle_bool (-(1#1000000000)) x) theta) in
          verdict (Qclose_list tol5 t theta) obs
        | None => 1%nat
        end
      | None => 1%nat
      end
  | FSelect m n sel basis sigma data idx =>
      match prepare m n sel basis sigma data with
      | Some fp => let i := fit_select QOpsF (fmeth m) (fp_W fp) (fp_basis fp) (fp_data fp) in
                   verdict (Nat.eqb i idx) (Nat.eqb i idx)
      | None => 1%nat
      end
  | FInterp m n sel basis sigma data theta =>
      match prepare m n sel basis sigma data with
      | Some fp =>
        match fit_interp_with QOps (fmeth m) (fp_W fp) (fp_p fp) (fp_basis fp) (ftarget m fp)
                (score QOpsF (fmeth m) (fp_W fp) (fp_data fp)) with
        | Some t =>
          let obs := Qabs_le (fscore m fp theta) (fscore m fp t) tol5
                     && Qabs_le (sum QOps theta) 1 tol7 && forallb (fun x => Qle_bool (-(1#1000000000)) x) theta
                     && Nat.leb (length (filter (fun x => negb (Qabs_le x 0 (1#1000000000000))) theta)) 2 in
          verdict (Qclose_list tol4 t theta) obs
        | None => 1%nat
        end
      | None => 1%nat
      end
  | FOptimize positive m n sel basis sigma data normalize theta =>
      match prepare m n sel basis sigma data with
      | Some fp =>
        let fit := if positive then fit_regress_nn_with QOps (fmeth m) (fp_W fp) (fp_basis fp) (ftarget m fp) normalize
                   else fit_regress_with QOps (fmeth m) (fp_W fp) (fp_basis fp) (ftarget m fp) normalize in
        match fit with
        | Some t =>
          (* the iterative fitters are not claimed optimal: nothing may beat the proven optimum, the fit is near it,
             normalised and (positive variant) non-negative *)
          let s := fscore m fp theta in let s0 := fscore m fp t in
          let obs := Qle_bool s (s0 + tol7) && (negb normalize || unit_norm theta)
                     && (negb positive || forallb (fun x => Qle_bool 0 x) theta) in
          verdict (Qle_bool (s0 - (1#100)) s && obs) obs
        | None => 1%nat
        end
      | None => 1%nat
      end
  | FPredict cls p basis theta sel_idx pred pred_rdm pred_rebuilt =>
      let mdl := match cls with
                 | 0%nat => predict_fixed QOps p basis
                 | 1%nat => predict_select basis sel_idx
                 | 2%nat => predict_weighted QOps p basis theta
                 | _ => predict_interp QOps p basis theta
                 end in
      let ok := Qclose_list tol9 mdl pred && Qclose_list tol9 mdl pred_rdm && Qclose_list tol9 mdl pred_rebuilt in
      verdict ok ok
  end.
