(* SimProofs: double centring inverts to the distances; exact second moment gives the exact RDM; design counts (C18). *)
From Coq Require Import List ZArith Reals Lra Lia Psatz Bool.
From RSA Require Import Prelude Vec VecR ListLib LinAlg CalcProofs CompareProofs UnbalProofs NoiseProofs FitProofs SimModel.
Import ListNotations.

(* ---------- make_design ---------- *)
Lemma concat_repeat_length {X} (l : list X) k : length (concat (repeat l k)) = (k * length l)%nat.
Proof. induction k as [|k IH]; cbn [repeat concat]; [reflexivity|]. rewrite app_length, IH. lia. Qed.

Theorem design_lengths n_cond n_part :
  length (fst (make_design n_cond n_part)) = (n_part * n_cond)%nat /\ length (snd (make_design n_cond n_part)) = (n_part * n_cond)%nat.
Proof.
  unfold make_design. cbn [fst snd]. split.
  - rewrite concat_repeat_length, seq_length. reflexivity.
  - generalize 0%nat. induction n_part as [|k IH]; intros s; cbn [seq flat_map]; [reflexivity|]. rewrite app_length, repeat_length, IH. lia.
Qed.

(* observation number p * n_cond + c is condition c in partition p: every condition exactly once per partition *)
Lemma nth_concat_repeat {X} (l : list X) k p c d : (p < k)%nat -> (c < length l)%nat ->
  nth (p * length l + c) (concat (repeat l k)) d = nth c l d.
Proof.
  revert p. induction k as [|k IH]; intros p Hp Hc; [lia|]. cbn [repeat concat]. destruct p as [|p].
  - cbn [Nat.mul Nat.add]. rewrite app_nth1 by exact Hc. reflexivity.
  - rewrite app_nth2 by (cbn; lia). replace (S p * length l + c - length l)%nat with (p * length l + c)%nat by (cbn; lia).
    apply IH; [lia|exact Hc].
Qed.

Lemma nth_repeat_lt {X} (a d : X) n c : (c < n)%nat -> nth c (repeat a n) d = a.
Proof. revert c. induction n as [|n IH]; intros [|c] H; cbn; try lia; [reflexivity|apply IH; lia]. Qed.

Lemma nth_flat_repeat n_cond k s p c : (p < k)%nat -> (c < n_cond)%nat ->
  nth (p * n_cond + c) (flat_map (fun q => repeat q n_cond) (seq s k)) 0%nat = (s + p)%nat.
Proof.
  revert s p. induction k as [|k IH]; intros s p Hp Hc; [lia|]. cbn [seq flat_map]. destruct p as [|p].
  - cbn [Nat.mul Nat.add]. rewrite app_nth1 by (rewrite repeat_length; exact Hc). rewrite nth_repeat_lt by exact Hc. lia.
  - rewrite app_nth2 by (rewrite repeat_length; cbn; lia). rewrite repeat_length.
    replace (S p * n_cond + c - n_cond)%nat with (p * n_cond + c)%nat by (cbn; lia). rewrite IH by lia. lia.
Qed.

Theorem design_every_condition_once_per_partition n_cond n_part p c : (p < n_part)%nat -> (c < n_cond)%nat ->
  nth (p * n_cond + c) (fst (make_design n_cond n_part)) 0%nat = c /\
  nth (p * n_cond + c) (snd (make_design n_cond n_part)) 0%nat = p.
Proof.
  intros Hp Hc. unfold make_design. cbn [fst snd]. split.
  - pose proof (nth_concat_repeat (seq 0 n_cond) n_part p c 0%nat Hp) as H. rewrite seq_length in H. rewrite H by exact Hc.
    rewrite seq_nth by exact Hc. reflexivity.
  - rewrite nth_flat_repeat by assumption. reflexivity.
Qed.

Open Scope R_scope.

(* ---------- double centring ---------- *)
Section Centring.
  Variable D : list (list R).
  Let n := length D.
  Hypothesis D_sym : forall i j, mentry ROps D i j = mentry ROps D j i.
  Hypothesis D_hollow : forall i, mentry ROps D i i = 0.
  Hypothesis D_rowcol : forall i, row_mean ROps D i = col_mean ROps D i.

  Lemma dc_entry i j : (i < n)%nat -> (j < n)%nat ->
    mentry ROps (double_center ROps D) i j =
    - (1 / 2) * (mentry ROps D i j - row_mean ROps D i - col_mean ROps D j + grand_mean ROps D).
  Proof.
    intros Hi Hj. unfold mentry at 1, double_center, nthF. fold n.
    rewrite (nth_map_seq (fun i => map (fun j => nmul ROps (nsub ROps (n0 ROps) (half ROps))
       (nadd ROps (nsub ROps (nsub ROps (mentry ROps D i j) (row_mean ROps D i)) (col_mean ROps D j)) (grand_mean ROps D))) (seq 0 n)) n i []) by exact Hi.
    rewrite (nth_map_seq (fun j => nmul ROps (nsub ROps (n0 ROps) (half ROps))
       (nadd ROps (nsub ROps (nsub ROps (mentry ROps D i j) (row_mean ROps D i)) (col_mean ROps D j)) (grand_mean ROps D))) n j (n0 ROps)) by exact Hj.
    unfold half. rsimp2. lra.
  Qed.

  (* the second moment G = -1/2 H D H determines the dissimilarities back: G_ii + G_jj - 2 G_ij = D_ij *)
  Theorem double_centring_inverts i j : (i < n)%nat -> (j < n)%nat ->
    mentry ROps (double_center ROps D) i i + mentry ROps (double_center ROps D) j j
      - 2 * mentry ROps (double_center ROps D) i j = mentry ROps D i j.
  Proof.
    intros Hi Hj. rewrite !dc_entry by assumption. rewrite !D_hollow, <- !D_rowcol. lra.
  Qed.
End Centring.

(* ---------- exact signal: patterns whose Gram matrix is c times the second moment have the exact RDM ---------- *)
Theorem exact_second_moment_gives_exact_rdm (D : list (list R)) (U : list (list R)) (c : R) i j :
  let n := length D in
  (forall a b, mentry ROps D a b = mentry ROps D b a) -> (forall a, mentry ROps D a a = 0) ->
  (forall a, row_mean ROps D a = col_mean ROps D a) ->
  (i < n)%nat -> (j < n)%nat -> length (nth i U []) = length (nth j U []) ->
  (forall a b, (a < n)%nat -> (b < n)%nat -> rdot (nth a U []) (nth b U []) = c * mentry ROps (double_center ROps D) a b) ->
  sqdist ROps (nth i U []) (nth j U []) = c * mentry ROps D i j.
Proof.
  intros n Hs Hh Hrc Hi Hj Hl HG. rewrite <- gram_eq by exact Hl. rewrite !HG by assumption.
  rewrite <- (double_centring_inverts D Hh Hrc i j Hi Hj). fold n. ring.
Qed.

(* noise is additive and scales with the square root of the noise variance: data(v) - data(0) = sqrt(v) E *)
Lemma vadd_vscale0 (x e : list R) : length x = length e -> rvadd x (rvscale 0 e) = x.
Proof.
  revert e. induction x as [|a x IH]; intros [|b e] H; try discriminate; [reflexivity|].
  cbn [vadd vscale map map2]. f_equal; [rsimp; ring|]. apply IH. cbn in H. lia.
Qed.

Lemma nth_map2_scaled (S E : list (list R)) (w : R) : forall k, (k < length S)%nat -> (k < length E)%nat ->
  nth k (map2 (vadd ROps) S (map (vscale ROps w) E)) [] = rvadd (nth k S []) (rvscale w (nth k E [])).
Proof.
  revert E. induction S as [|s S IH]; intros [|e E] k HS HE; cbn in *; try lia.
  destruct k as [|k]; [reflexivity|]. apply IH; lia.
Qed.

Theorem noise_additive_sqrt_scaling cond_vec U signal v (E : list (list R)) k :
  0 <= v -> (k < length cond_vec)%nat -> (k < length E)%nat ->
  length (nth k (expand cond_vec U) []) = length (nth k E []) ->
  nth k (assemble ROps cond_vec U signal v E) [] =
  rvadd (nth k (assemble ROps cond_vec U signal 0 E) []) (rvscale (sqrt v) (nth k E [])).
Proof.
  intros Hv Hk HkE Hl. unfold assemble, scale_rows.
  set (S := map (vscale ROps (nsqrt ROps signal)) (expand cond_vec U)).
  assert (HS : (k < length S)%nat) by (unfold S, expand; rewrite !map_length; exact Hk).
  rewrite !nth_map2_scaled by assumption. rsimp2. rewrite sqrt_0.
  rewrite (vadd_vscale0 (nth k S []) (nth k E [])); [reflexivity|].
  unfold S. rewrite (nth_map_in (vscale ROps (sqrt signal)) (expand cond_vec U) k [] []) by (unfold expand; rewrite map_length; exact Hk).
  rewrite vscale_length. exact Hl.
Qed.
