(* FitProofs: optimality of the regression fitters (normal equations / Karush-Kuhn-Tucker point) for the
   average (whitened) cosine or correlation with the training RDMs, selection and interpolation (C08). *)
From Coq Require Import List ZArith Reals Lra Lia Psatz Bool.
From RSA Require Import Prelude Vec VecR ListLib LinAlg CalcProofs CompareModel CompareProofs FilterProofs
  UnbalProofs NoiseProofs TransformProofs CeilModel CeilProofs FitModel.
Import ListNotations.
Open Scope R_scope.

(* ---------- small vector facts ---------- *)
Lemma vdivs_as_scale (x : list R) s : vdivs ROps x s = rvscale (/ s) x.
Proof. unfold vdivs, vscale. apply map_ext. intros v. rsimp. unfold Rdiv. ring. Qed.

Lemma rdot_map_sub {X} (f h : X -> R) (l : list X) : forall t,
  rdot t (map (fun x => f x - h x) l) = rdot t (map f l) - rdot t (map h l).
Proof.
  induction l as [|a l IH]; intros [|t ts]; cbn [map]; rewrite ?rdot_nil_l, ?rdot_nil_r; try lra.
  rewrite !rdot_cons, IH. lra.
Qed.

Lemma rdot_map_scal {X} c (f : X -> R) (l : list X) : forall t,
  rdot t (map (fun x => c * f x) l) = c * rdot t (map f l).
Proof.
  induction l as [|a l IH]; intros [|t ts]; cbn [map]; rewrite ?rdot_nil_l, ?rdot_nil_r; try lra.
  rewrite !rdot_cons, IH. lra.
Qed.

Lemma rdot_map_ext_in {X} (f h : X -> R) (l : list X) : (forall x, In x l -> f x = h x) -> forall t,
  rdot t (map f l) = rdot t (map h l).
Proof.
  induction l as [|a l IH]; intros E [|t ts]; cbn [map]; rewrite ?rdot_nil_l, ?rdot_nil_r; try lra.
  rewrite !rdot_cons, IH, (E a) by (intros; try apply E; simpl; auto). reflexivity.
Qed.

Lemma rdot_vscale_both s t g : rdot (rvscale s t) g = s * rdot t g.
Proof. apply rdot_vscale_l. Qed.

Lemma le_sqrt_prod d a b : 0 <= a -> 0 <= b -> d * d <= a * b -> d <= sqrt a * sqrt b.
Proof.
  intros Ha Hb H. rewrite <- sqrt_mult by assumption.
  destruct (Rle_dec d 0) as [Hd|Hd]; [pose proof (sqrt_pos (a * b)); lra|].
  rewrite <- (sqrt_Rsqr d) by lra. apply sqrt_le_1; unfold Rsqr; nra.
Qed.

(* ---------- a symmetric positive-semidefinite form on the p-vectors ---------- *)
Section Form.
  Variable p : nat.
  Variable bf : list R -> list R -> R.
  Hypothesis bf_sym : forall x y, length x = p -> length y = p -> bf x y = bf y x.
  Hypothesis bf_add : forall x y z, length x = p -> length y = p -> length z = p -> bf (rvadd x y) z = bf x z + bf y z.
  Hypothesis bf_scal : forall a x z, length x = p -> length z = p -> bf (rvscale a x) z = a * bf x z.
  Hypothesis bf_psd : forall x, length x = p -> 0 <= bf x x.
  Hypothesis bf_zero : forall z, length z = p -> bf (vzero ROps p) z = 0.

  (* pad / cut any list to a p-vector: makes the form total, so that the abstract Cauchy-Schwarz applies *)
  Definition fitp (x : list R) : list R := firstn p (x ++ repeat 0 p).
  Lemma fitp_len x : length (fitp x) = p.
  Proof. unfold fitp. rewrite firstn_length, app_length, repeat_length. lia. Qed.
  Lemma fitp_id x : length x = p -> fitp x = x.
  Proof. intros H. unfold fitp. rewrite firstn_app, H, Nat.sub_diag. cbn [firstn]. rewrite app_nil_r, <- H. apply firstn_all. Qed.

  Theorem bf_cauchy_schwarz x y : length x = p -> length y = p -> bf x y * bf x y <= bf x x * bf y y.
  Proof.
    intros Hx Hy.
    pose proof (psd_cauchy_schwarz (list R) (fun a b => rvadd (fitp a) (fitp b)) (fun a b => rvscale a (fitp b))
                  (fun a b => bf (fitp a) (fitp b))) as CS.
    assert (La : forall a b, length (rvadd (fitp a) (fitp b)) = p).
    { intros a b. rewrite vadd_length; rewrite !fitp_len; reflexivity. }
    assert (Ls : forall a b, length (rvscale a (fitp b)) = p) by (intros; rewrite vscale_length; apply fitp_len).
    specialize (CS ltac:(intros; apply bf_sym; apply fitp_len)).
    specialize (CS ltac:(intros a b c; cbv beta; rewrite (fitp_id _ (La a b)); apply bf_add; apply fitp_len)).
    specialize (CS ltac:(intros a b c; cbv beta; rewrite (fitp_id _ (Ls a b)); apply bf_scal; apply fitp_len)).
    specialize (CS ltac:(intros; apply bf_psd; apply fitp_len) x y).
    cbv beta in CS. rewrite !fitp_id in CS by assumption. exact CS.
  Qed.

  Lemma bf_le_sqrt x y : length x = p -> length y = p -> bf x y <= sqrt (bf x x) * sqrt (bf y y).
  Proof. intros Hx Hy. apply le_sqrt_prod; [apply bf_psd; assumption|apply bf_psd; assumption|apply bf_cauchy_schwarz; assumption]. Qed.

  Notation LP xs := (Forall (fun x : list R => length x = p) xs).

  Lemma lincomb_len theta xs : LP xs -> length (lincomb ROps p theta xs) = p.
  Proof.
    intros H. unfold lincomb. apply vsum_len. revert theta. induction H as [|x xs Hx _ IH]; intros [|t ts]; cbn [map2]; constructor.
    - rewrite vscale_length. exact Hx.
    - apply IH.
  Qed.

  Lemma bf_lincomb_l theta xs z : LP xs -> length z = p ->
    bf (lincomb ROps p theta xs) z = rdot theta (map (fun x => bf x z) xs).
  Proof.
    intros H Hz. revert theta. induction H as [|x xs Hx Hxs IH]; intros [|t ts]; cbn [map];
      rewrite ?rdot_nil_l, ?rdot_nil_r; try (apply bf_zero; exact Hz).
    unfold lincomb. cbn [map2 vsum fold_right]. fold (vsum ROps p (map2 (vscale ROps) ts xs)). fold (lincomb ROps p ts xs).
    rewrite bf_add, bf_scal, IH, rdot_cons; try assumption; try reflexivity.
    - rewrite vscale_length. exact Hx.
    - apply lincomb_len. exact Hxs.
  Qed.

  Lemma bf_lincomb_r theta xs z : LP xs -> length z = p ->
    bf z (lincomb ROps p theta xs) = rdot theta (map (fun x => bf z x) xs).
  Proof.
    intros H Hz. rewrite bf_sym, bf_lincomb_l by (try assumption; apply lincomb_len; exact H).
    apply rdot_map_ext_in. intros x Hx. apply bf_sym; [|exact Hz]. rewrite Forall_forall in H. apply H. exact Hx.
  Qed.

  Lemma bf_vsum_l zs q : LP zs -> length q = p -> bf (vsum ROps p zs) q = rsum (map (fun z => bf z q) zs).
  Proof.
    intros H Hq. induction H as [|z zs Hz Hzs IH]; cbn [vsum fold_right map].
    - rewrite rsum_nil. apply bf_zero. exact Hq.
    - fold (vsum ROps p zs). rewrite bf_add, IH, rsum_cons; try assumption; try reflexivity. apply vsum_len. exact Hzs.
  Qed.

  (* similarity up to the (fixed) norm of the target: <q,y>/|q| *)
  Definition nsim (q y : list R) : R := bf q y / sqrt (bf q q).
  Definition wsimf (x y : list R) : R := bf x y / sqrt (bf x x) / sqrt (bf y y).

  (* ----- the Karush-Kuhn-Tucker point is optimal over the cone (all of the span when the gradient vanishes) ----- *)
  Definition grad (xs : list (list R)) (y : list R) (theta : list R) : list R :=
    map (fun x => bf x y - bf x (lincomb ROps p theta xs)) xs.

  Theorem kkt_optimal xs y theta phi : LP xs -> length y = p ->
    rdot theta (grad xs y theta) = 0 -> rdot phi (grad xs y theta) <= 0 ->
    0 < bf (lincomb ROps p theta xs) (lincomb ROps p theta xs) ->
    0 < bf (lincomb ROps p phi xs) (lincomb ROps p phi xs) ->
    nsim (lincomb ROps p phi xs) y <= nsim (lincomb ROps p theta xs) y.
  Proof.
    intros Hxs Hy Ht Hp Ppos Qpos. unfold grad in *.
    set (P := lincomb ROps p theta xs) in *. set (Q := lincomb ROps p phi xs) in *.
    assert (LPp : length P = p) by (apply lincomb_len; exact Hxs).
    assert (LQ : length Q = p) by (apply lincomb_len; exact Hxs).
    rewrite rdot_map_sub in Ht, Hp.
    rewrite <- !bf_lincomb_l in Ht, Hp by assumption. fold P Q in Ht, Hp.
    pose proof (bf_le_sqrt Q P LQ LPp) as CS.
    assert (sQ : 0 < sqrt (bf Q Q)) by (apply sqrt_lt_R0; exact Qpos).
    assert (sP : 0 < sqrt (bf P P)) by (apply sqrt_lt_R0; exact Ppos).
    unfold nsim. replace (bf P y) with (bf P P) by lra.
    replace (bf P P / sqrt (bf P P)) with (sqrt (bf P P)).
    2:{ rewrite <- (sqrt_sqrt (bf P P)) at 2 by lra. field. lra. }
    apply Rmult_le_reg_r with (r := sqrt (bf Q Q)); [exact sQ|].
    unfold Rdiv. rewrite Rmult_assoc, Rinv_l by lra. lra.
  Qed.

  (* positive rescaling of the weights does not change the similarity *)
  Lemma nsim_scale_weights xs y theta s : LP xs -> length y = p -> 0 < s ->
    nsim (lincomb ROps p (rvscale s theta) xs) y = nsim (lincomb ROps p theta xs) y.
  Proof.
    intros Hxs Hy Hs. unfold nsim.
    set (P := lincomb ROps p theta xs). set (P' := lincomb ROps p (rvscale s theta) xs).
    assert (LPp : length P = p) by (apply lincomb_len; exact Hxs).
    assert (LP' : length P' = p) by (apply lincomb_len; exact Hxs).
    assert (E1 : forall z, length z = p -> bf P' z = s * bf P z).
    { intros z Hz. unfold P', P. rewrite !bf_lincomb_l by assumption. apply rdot_vscale_l. }
    rewrite (E1 y Hy), (E1 P' LP'), (bf_sym P P' LPp LP'), (E1 P LPp).
    replace (s * (s * bf P P)) with (Rsqr s * bf P P) by (unfold Rsqr; ring).
    rewrite sqrt_mult by (try apply Rle_0_sqr; apply bf_psd; exact LPp). rewrite sqrt_Rsqr by lra.
    destruct (Req_dec (sqrt (bf P P)) 0) as [E|E].
    - rewrite E. unfold Rdiv. rewrite Rmult_0_r, Rinv_0. ring.
    - field. split; lra.
  Qed.

  (* ----- the average similarity with the training RDMs is the similarity with their normalised sum ----- *)
  Definition unit_sum (ds : list (list R)) : list R :=
    vsum ROps p (map (fun d => vdivs ROps d (sqrt (bf d d))) ds).

  Lemma unit_sum_len ds : LP ds -> length (unit_sum ds) = p.
  Proof.
    intros H. apply vsum_len. rewrite Forall_forall in *. intros v Hv. apply in_map_iff in Hv as (d & <- & Hd).
    unfold vdivs. rewrite map_length. apply H. exact Hd.
  Qed.

  Theorem sum_sim_linear q ds : length q = p -> LP ds -> 0 < bf q q ->
    rsum (map (wsimf q) ds) = nsim q (unit_sum ds).
  Proof.
    intros Hq Hds Qpos. unfold nsim, unit_sum.
    assert (Hl : LP (map (fun d => vdivs ROps d (sqrt (bf d d))) ds)).
    { rewrite Forall_forall in *. intros v Hv. apply in_map_iff in Hv as (d & <- & Hd). unfold vdivs. rewrite map_length. apply Hds. exact Hd. }
    rewrite bf_sym, bf_vsum_l by (try assumption; apply vsum_len; exact Hl). rewrite map_map.
    rewrite (rsum_map_ext (fun d => bf (vdivs ROps d (sqrt (bf d d))) q) (fun d => sqrt (bf q q) * wsimf q d)).
    - rewrite (rsum_map_scal (sqrt (bf q q)) (wsimf q) ds). set (S := rsum (map (wsimf q) ds)). field. apply Rgt_not_eq. apply sqrt_lt_R0. exact Qpos.
    - intros d Hd. rewrite Forall_forall in Hds. specialize (Hds d Hd).
      rewrite vdivs_as_scale, bf_scal, (bf_sym d q) by assumption. unfold wsimf.
      assert (0 < sqrt (bf q q)) by (apply sqrt_lt_R0; exact Qpos).
      destruct (Req_dec (sqrt (bf d d)) 0) as [E|E].
      + rewrite E. unfold Rdiv. rewrite Rinv_0. ring.
      + field. split; lra.
  Qed.

  (* a target that the fitter may use in place of the normalised sum: same inner products with the basis up to c > 0 *)
  Definition target_equiv (xs : list (list R)) (y u : list R) (c : R) : Prop :=
    0 < c /\ forall x, In x xs -> bf x y = c * bf x u.

  Lemma nsim_target_equiv xs y u c theta : LP xs -> length y = p -> length u = p -> target_equiv xs y u c ->
    nsim (lincomb ROps p theta xs) y = c * nsim (lincomb ROps p theta xs) u.
  Proof.
    intros Hxs Hy Hu [Hc E]. unfold nsim. rewrite (bf_lincomb_l theta xs y), (bf_lincomb_l theta xs u) by assumption.
    rewrite (rdot_map_ext_in _ (fun x => c * bf x u) xs E), rdot_map_scal. unfold Rdiv. ring.
  Qed.

  (* main statement: weights at a KKT point of the fit to [y] maximise the summed similarity with the training RDMs
     over all weight vectors [phi] admitted by the sign condition (every phi when the gradient vanishes,
     the non-negative ones when the gradient is non-positive) *)
  Theorem kkt_maximises_training_criterion xs ds y c theta phi :
    LP xs -> LP ds -> length y = p -> target_equiv xs y (unit_sum ds) c ->
    rdot theta (grad xs y theta) = 0 -> rdot phi (grad xs y theta) <= 0 ->
    0 < bf (lincomb ROps p theta xs) (lincomb ROps p theta xs) ->
    0 < bf (lincomb ROps p phi xs) (lincomb ROps p phi xs) ->
    rsum (map (wsimf (lincomb ROps p phi xs)) ds) <= rsum (map (wsimf (lincomb ROps p theta xs)) ds).
  Proof.
    intros Hxs Hds Hy Heq Ht Hp Ppos Qpos.
    rewrite !sum_sim_linear by (try assumption; apply lincomb_len; exact Hxs).
    pose proof (kkt_optimal xs y theta phi Hxs Hy Ht Hp Ppos Qpos) as K.
    rewrite !(nsim_target_equiv xs y (unit_sum ds) c) in K by (try assumption; apply unit_sum_len; exact Hds).
    destruct Heq as [Hc _]. nra.
  Qed.

  Lemma grad_zero_any xs y theta phi :
    Forall (fun g => g = 0) (grad xs y theta) -> rdot phi (grad xs y theta) = 0.
  Proof.
    generalize (grad xs y theta). intros g H. revert phi. induction H as [|a g Ha _ IH]; intros [|t ts];
      rewrite ?rdot_nil_l, ?rdot_nil_r; try reflexivity. rewrite rdot_cons, IH, Ha. ring.
  Qed.

  Lemma grad_nonpos_cone xs y theta phi :
    Forall (fun g => g <= 0) (grad xs y theta) -> Forall (fun t => 0 <= t) phi -> rdot phi (grad xs y theta) <= 0.
  Proof.
    generalize (grad xs y theta). intros g H. revert phi. induction H as [|a g Ha _ IH]; intros [|t ts] Hphi;
      rewrite ?rdot_nil_l, ?rdot_nil_r; try lra. inversion Hphi; subst. rewrite rdot_cons. specialize (IH ts ltac:(assumption)). nra.
  Qed.
End Form.

(* ---------- the two forms of the toolbox ---------- *)
Lemma rdot_vzero_l p z : rdot (vzero ROps p) z = 0.
Proof. revert z. induction p as [|p IH]; intros [|a z]; cbn [vzero repeat]; rewrite ?rdot_nil_l, ?rdot_nil_r; try reflexivity.
  fold (vzero ROps p). rewrite rdot_cons, IH. rsimp. ring. Qed.

Definition plain_form : list R -> list R -> R := rdot.
Definition white_form (W : list (list R)) : list R -> list R -> R := fun x y => rdot x (matvec ROps W y).

Lemma ip_plain x y : ip ROps None x y = plain_form x y. Proof. reflexivity. Qed.
Lemma ip_white W x y : ip ROps (Some W) x y = white_form W x y. Proof. reflexivity. Qed.

Section Instances.
  Variable p : nat.
  Lemma plain_sym x y : length x = p -> length y = p -> plain_form x y = plain_form y x.
  Proof. intros _ _. apply rdot_comm. Qed.
  Lemma plain_add x y z : length x = p -> length y = p -> length z = p -> plain_form (rvadd x y) z = plain_form x z + plain_form y z.
  Proof. intros Hx Hy _. apply rdot_vadd_l. congruence. Qed.
  Lemma plain_scal a x z : length x = p -> length z = p -> plain_form (rvscale a x) z = a * plain_form x z.
  Proof. intros _ _. apply rdot_vscale_l. Qed.
  Lemma plain_psd x : length x = p -> 0 <= plain_form x x.
  Proof. intros _. apply rdot_self_nonneg. Qed.
  Lemma plain_zero z : length z = p -> plain_form (vzero ROps p) z = 0.
  Proof. intros _. apply rdot_vzero_l. Qed.

  Variable W : list (list R).
  Lemma white_add x y z : length x = p -> length y = p -> length z = p -> white_form W (rvadd x y) z = white_form W x z + white_form W y z.
  Proof. intros Hx Hy _. apply rdot_vadd_l. congruence. Qed.
  Lemma white_scal a x z : length x = p -> length z = p -> white_form W (rvscale a x) z = a * white_form W x z.
  Proof. intros _ _. apply rdot_vscale_l. Qed.
  Lemma white_zero z : length z = p -> white_form W (vzero ROps p) z = 0.
  Proof. intros _. apply rdot_vzero_l. Qed.
End Instances.

(* ---------- the model's solvers deliver the hypotheses of the optimality theorem ---------- *)
Lemma vec_eqb_eq (a b : list R) : vec_eqb ROps a b = true -> a = b.
Proof. apply all2_neqb_eq. Qed.

Theorem solve_sound G b t : solve ROps G b = Some t -> matvec ROps G t = b.
Proof.
  unfold solve. destruct (minv ROps G) as [Gi|]; [|discriminate].
  destruct (vec_eqb ROps (matvec ROps G (matvec ROps Gi b)) b) eqn:E; [|discriminate].
  intros H. inversion H; subst. apply vec_eqb_eq. exact E.
Qed.

Lemma forallb_nleb_nonneg (l : list R) : forallb (fun t => nleb ROps (n0 ROps) t) l = true -> Forall (fun t => 0 <= t) l.
Proof.
  rewrite forallb_forall, Forall_forall. intros H x Hx. specialize (H x Hx). rsimp2. destruct (Rle_dec 0 x); [assumption|discriminate].
Qed.
Lemma forallb_nleb_nonpos (l : list R) : forallb (fun g => nleb ROps g (n0 ROps)) l = true -> Forall (fun g => g <= 0) l.
Proof.
  rewrite forallb_forall, Forall_forall. intros H x Hx. specialize (H x Hx). rsimp2. destruct (Rle_dec x 0); [assumption|discriminate].
Qed.
Lemma is_zero_R x : is_zero ROps x = true -> x = 0.
Proof. unfold is_zero, neqb. rsimp2. destruct (Rle_dec x 0), (Rle_dec 0 x); cbn; intros; try discriminate. lra. Qed.

Theorem kkt_sound G b t : kkt ROps G b t = true ->
  Forall (fun x => 0 <= x) t /\ Forall (fun g => g <= 0) (gradient ROps G b t) /\ rdot t (gradient ROps G b t) = 0.
Proof.
  unfold kkt. rewrite !andb_true_iff. intros [[[H1 H2] H3] _].
  split; [apply forallb_nleb_nonneg; exact H1|]. split; [apply forallb_nleb_nonpos; exact H2|apply is_zero_R; exact H3].
Qed.

Lemma first_some_in {X} (l : list (option X)) x : first_some l = Some x -> In (Some x) l.
Proof. induction l as [|[a|] l IH]; cbn; intros H; [discriminate|inversion H; auto|auto]. Qed.

Theorem nnls_kkt G b t : nnls ROps G b = Some t ->
  Forall (fun x => 0 <= x) t /\ Forall (fun g => g <= 0) (gradient ROps G b t) /\ rdot t (gradient ROps G b t) = 0.
Proof.
  unfold nnls. intros H. apply first_some_in in H. apply in_map_iff in H as (mk & H & _).
  unfold nn_candidate in H. destruct (solve ROps _ _) as [ts|]; [|discriminate].
  destruct (kkt ROps G b (embed ROps mk ts)) eqn:E; [|discriminate]. inversion H; subst. apply kkt_sound. exact E.
Qed.

(* the model's gradient [b - G theta] is the gradient of the form *)
Lemma nth_error_map2 {X Y Z'} (f : X -> Y -> Z') a b k x y :
  nth_error a k = Some x -> nth_error b k = Some y -> nth_error (map2 f a b) k = Some (f x y).
Proof.
  revert b k. induction a as [|a0 a IH]; intros [|b0 b] [|k]; cbn; intros H1 H2; try discriminate.
  - inversion H1; inversion H2; reflexivity.
  - apply IH; assumption.
Qed.

Lemma map2_map_same {X Y Z' U} (f : Y -> Z' -> U) (g : X -> Y) (h : X -> Z') l :
  map2 f (map g l) (map h l) = map (fun x => f (g x) (h x)) l.
Proof. induction l as [|a l IH]; cbn; [reflexivity|rewrite IH; reflexivity]. Qed.

Section Gradient.
  Variable p : nat.
  Variable W : option (list (list R)).
  Hypothesis form_sym : forall x y, length x = p -> length y = p -> ip ROps W x y = ip ROps W y x.
  Hypothesis form_add : forall x y z, length x = p -> length y = p -> length z = p ->
    ip ROps W (rvadd x y) z = ip ROps W x z + ip ROps W y z.
  Hypothesis form_scal : forall a x z, length x = p -> length z = p -> ip ROps W (rvscale a x) z = a * ip ROps W x z.
  Hypothesis form_psd : forall x, length x = p -> 0 <= ip ROps W x x.
  Hypothesis form_zero : forall z, length z = p -> ip ROps W (vzero ROps p) z = 0.

  Lemma gradient_is_grad xs y theta : Forall (fun x => length x = p) xs -> length y = p ->
    gradient ROps (gram ROps W xs) (rhs ROps W xs y) theta = grad p (ip ROps W) xs y theta.
  Proof.
    intros Hxs Hy. unfold gradient, grad, gram, rhs, vsub, matvec.
    rewrite map_map, map2_map_same.
    apply map_ext_in. intros x Hx. rsimp. f_equal.
    rewrite (bf_lincomb_r p (ip ROps W) form_sym form_add form_scal form_zero theta xs x Hxs).
    - apply rdot_comm.
    - rewrite Forall_forall in Hxs. apply Hxs. exact Hx.
  Qed.
End Gradient.

(* ---------- the pooled target of the regression fitters is equivalent to the normalised sum ---------- *)
Lemma rsum_sq_is_rdot (x : list R) : rsum (map (fun v => v * v) x) = rdot x x.
Proof. induction x as [|a x IH]; [reflexivity|]. cbn [map]. rewrite rsum_cons, rdot_cons, IH. reflexivity. Qed.

Lemma INR_pos_len {X} (l : list X) : l <> [] -> 0 < INR (length l).
Proof. destruct l; [contradiction|]. intros _. cbn [length]. rewrite S_INR. pose proof (pos_INR (length l)). lra. Qed.

Lemma rms_is_norm (d : list R) : d <> [] -> / rms ROps d = sqrt (INR (length d)) * / sqrt (rdot d d).
Proof.
  intros Hne. pose proof (INR_pos_len d Hne) as HP.
  unfold rms, mean. rsimp2. rewrite INR_ofnat, map_length.
  change (sum ROps (map (fun v : R => v * v) d)) with (rsum (map (fun v => v * v) d)). rewrite rsum_sq_is_rdot.
  rewrite sqrt_div_alt by exact HP.
  assert (0 < sqrt (INR (length d))) by (apply sqrt_lt_R0; exact HP).
  destruct (Req_dec (sqrt (rdot d d)) 0) as [E|E].
  - rewrite E. unfold Rdiv. rewrite Rmult_0_l, Rinv_0. ring.
  - field. split; lra.
Qed.

Lemma stack_mean_of_map (f : list R -> list R) p (ds : list (list R)) :
  ds <> [] -> (forall d, length (f d) = length d) -> Forall (fun d => length d = p) ds ->
  stack_mean ROps (map f ds) = vdivs ROps (vsum ROps p (map f ds)) (INR (length ds)).
Proof.
  intros Hne Hf Hl. destruct ds as [|d0 ds]; [contradiction|]. cbn [map]. unfold stack_mean.
  rewrite INR_ofnat. cbn [length]. rewrite map_length, Hf. inversion Hl; subst. reflexivity.
Qed.

Section Targets.
  Variable p : nat.
  Variable bf : list R -> list R -> R.
  Hypothesis bf_sym : forall x y, length x = p -> length y = p -> bf x y = bf y x.
  Hypothesis bf_add : forall x y z, length x = p -> length y = p -> length z = p -> bf (rvadd x y) z = bf x z + bf y z.
  Hypothesis bf_scal : forall a x z, length x = p -> length z = p -> bf (rvscale a x) z = a * bf x z.
  Hypothesis bf_zero : forall z, length z = p -> bf (vzero ROps p) z = 0.
  Notation LP xs := (Forall (fun x : list R => length x = p) xs).

  Lemma target_equiv_scaled xs ds (s : list R -> R) k :
    LP xs -> LP ds -> ds <> [] -> 0 < k ->
    (forall d, In d ds -> / s d = k * / sqrt (bf d d)) ->
    target_equiv bf xs (vdivs ROps (vsum ROps p (map (fun d => vdivs ROps d (s d)) ds)) (INR (length ds)))
                 (unit_sum p bf ds) (k / INR (length ds)).
  Proof.
    intros Hxs Hds Hne Hk Hs. pose proof (INR_pos_len ds Hne) as Hn. split; [apply Rdiv_lt_0_compat; assumption|].
    intros x Hx. assert (Lx : length x = p) by (rewrite Forall_forall in Hxs; apply Hxs; exact Hx).
    assert (Hl1 : LP (map (fun d => vdivs ROps d (s d)) ds)).
    { rewrite Forall_forall in *. intros v Hv. apply in_map_iff in Hv as (d & <- & Hd). unfold vdivs. rewrite map_length. apply Hds. exact Hd. }
    assert (Hl2 : LP (map (fun d => vdivs ROps d (sqrt (bf d d))) ds)).
    { rewrite Forall_forall in *. intros v Hv. apply in_map_iff in Hv as (d & <- & Hd). unfold vdivs. rewrite map_length. apply Hds. exact Hd. }
    set (V := vsum ROps p (map (fun d => vdivs ROps d (s d)) ds)).
    assert (LV : length V = p) by (apply vsum_len; exact Hl1).
    rewrite vdivs_as_scale, bf_sym, bf_scal by (rewrite ?vscale_length; assumption).
    unfold V. rewrite bf_vsum_l by assumption. unfold unit_sum.
    rewrite (bf_sym x), bf_vsum_l by (try assumption; apply vsum_len; exact Hl2). rewrite !map_map.
    rewrite (rsum_map_ext (fun d => bf (vdivs ROps d (s d)) x) (fun d => k * bf (vdivs ROps d (sqrt (bf d d))) x)).
    - rewrite (rsum_map_scal k (fun d => bf (vdivs ROps d (sqrt (bf d d))) x) ds).
      set (S := rsum _). unfold Rdiv. ring.
    - intros d Hd. assert (Ld : length d = p) by (rewrite Forall_forall in Hds; apply Hds; exact Hd).
      rewrite !vdivs_as_scale, !bf_scal, (Hs d Hd) by assumption. ring.
  Qed.
End Targets.

(* vectors whose entries sum to zero (centred vectors) *)
Lemma rdot_shift x y k : length x = length y -> rdot x (map (fun v => v + k) y) = rdot x y + k * rsum x.
Proof.
  revert y. induction x as [|a x IH]; intros [|b y] H; cbn [map]; rewrite ?rdot_nil_l, ?rdot_nil_r, ?rsum_nil; try lra; try discriminate.
  rewrite !rdot_cons, rsum_cons, IH by (cbn in H; lia). ring.
Qed.

Lemma rsum_center_zero x : x <> [] -> rsum (center ROps x) = 0.
Proof.
  intros Hne. unfold center. rsimp2. rewrite (rsum_map_sub (fun v => v) (fun _ => mean ROps x)), map_id, rsum_map_const.
  unfold mean. rsimp2. rewrite INR_ofnat. pose proof (INR_pos_len x Hne). field. lra.
Qed.

Lemma center_length (x : list R) : length (center ROps x) = length x.
Proof. unfold center. apply map_length. Qed.

Lemma target_equiv_shift xs y u c k : Forall (fun x => length x = length y /\ rsum x = 0) xs ->
  target_equiv plain_form xs y u c -> target_equiv plain_form xs (map (fun v => v + k) y) u c.
Proof.
  intros H [Hc E]. split; [exact Hc|]. intros x Hx. rewrite Forall_forall in H. destruct (H x Hx) as [Hl Hs].
  unfold plain_form in *. rewrite rdot_shift, Hs, (E x Hx) by exact Hl. ring.
Qed.

(* ---------- the fitters: optimality of what they return ---------- *)
Lemma vsub_self_zero (b : list R) : Forall (fun g => g = 0) (rvsub b b).
Proof. induction b as [|a b IH]; cbn; constructor; [rsimp; ring|exact IH]. Qed.

Lemma finish_is_scale normalize (t : list R) : exists s, 0 < s /\ finish ROps normalize t = rvscale s t.
Proof.
  assert (Hid : t = rvscale 1 t).
  { unfold vscale. rewrite <- (map_id t) at 1. apply map_ext. intros v. rsimp. ring. }
  destruct normalize; cbn [finish]; [|exists 1; split; [lra|exact Hid]].
  unfold normalise. destruct (is_zero ROps (dot ROps t t)) eqn:E; [exists 1; split; [lra|exact Hid]|].
  assert (Hpos : 0 < rdot t t).
  { pose proof (rdot_self_nonneg t). destruct (Req_dec (rdot t t) 0) as [Z|Z]; [|lra].
    exfalso. unfold is_zero, neqb in E. rsimp2. rewrite Z in E. destruct (Rle_dec 0 0); [discriminate|lra]. }
  exists (/ sqrt (rdot t t)). split; [apply Rinv_0_lt_compat; apply sqrt_lt_R0; exact Hpos|]. rsimp2. apply vdivs_as_scale.
Qed.

Theorem normalised_unit_norm (t : list R) : 0 < rdot t t -> rdot (normalise ROps t) (normalise ROps t) = 1.
Proof.
  intros Hpos. unfold normalise. destruct (is_zero ROps (dot ROps t t)) eqn:E.
  - apply is_zero_R in E. change (dot ROps t t) with (rdot t t) in E. lra.
  - rsimp2. rewrite vdivs_as_scale, rdot_vscale_l, rdot_vscale_r.
    assert (0 < sqrt (rdot t t)) by (apply sqrt_lt_R0; exact Hpos).
    rewrite <- (sqrt_sqrt (rdot t t)) at 3 by lra. field. lra.
Qed.

Section Fitters.
  Variable p : nat.
  Variable W : option (list (list R)).
  Hypothesis form_sym : forall x y, length x = p -> length y = p -> ip ROps W x y = ip ROps W y x.
  Hypothesis form_add : forall x y z, length x = p -> length y = p -> length z = p ->
    ip ROps W (rvadd x y) z = ip ROps W x z + ip ROps W y z.
  Hypothesis form_scal : forall a x z, length x = p -> length z = p -> ip ROps W (rvscale a x) z = a * ip ROps W x z.
  Hypothesis form_psd : forall x, length x = p -> 0 <= ip ROps W x x.
  Hypothesis form_zero : forall z, length z = p -> ip ROps W (vzero ROps p) z = 0.
  Notation LP xs := (Forall (fun x : list R => length x = p) xs).
  Notation bf := (ip ROps W).

  (* summed similarity of the prediction with weights [theta] with the (prepared) training RDMs *)
  Definition criterion (xs ds : list (list R)) (theta : list R) : R :=
    rsum (map (wsimf bf (lincomb ROps p theta xs)) ds).
  Definition admissible (xs : list (list R)) (theta : list R) : Prop :=
    0 < bf (lincomb ROps p theta xs) (lincomb ROps p theta xs).

  Lemma criterion_scale xs ds theta s : LP xs -> LP ds -> 0 < s -> admissible xs theta ->
    admissible xs (rvscale s theta) /\ criterion xs ds (rvscale s theta) = criterion xs ds theta.
  Proof.
    intros Hxs Hds Hs Ha. unfold admissible, criterion in *.
    set (P := lincomb ROps p theta xs) in *. set (P' := lincomb ROps p (rvscale s theta) xs).
    assert (LPp : length P = p) by (apply lincomb_len; exact Hxs).
    assert (LP' : length P' = p) by (apply lincomb_len; exact Hxs).
    assert (E1 : forall z, length z = p -> bf P' z = s * bf P z).
    { intros z Hz. unfold P', P. rewrite !(bf_lincomb_l p bf form_add form_scal form_zero) by assumption. apply rdot_vscale_l. }
    assert (Hpos : 0 < bf P' P').
    { rewrite (E1 P' LP'), (form_sym P P' LPp LP'), (E1 P LPp). apply Rmult_lt_0_compat; [exact Hs|apply Rmult_lt_0_compat; [exact Hs|exact Ha]]. }
    split; [exact Hpos|].
    rewrite !(sum_sim_linear p bf form_sym form_add form_scal form_zero) by assumption.
    apply (nsim_scale_weights p bf form_sym form_add form_scal form_psd form_zero); try assumption.
    apply unit_sum_len. exact Hds.
  Qed.

  Theorem solve_maximises xs ds y c theta phi :
    LP xs -> LP ds -> length y = p -> target_equiv bf xs y (unit_sum p bf ds) c ->
    solve ROps (gram ROps W xs) (rhs ROps W xs y) = Some theta ->
    admissible xs theta -> admissible xs phi -> criterion xs ds phi <= criterion xs ds theta.
  Proof.
    intros Hxs Hds Hy Heq Hs Ht Hp. apply solve_sound in Hs.
    assert (G0 : Forall (fun g => g = 0) (grad p bf xs y theta)).
    { rewrite <- (gradient_is_grad p W form_sym form_add form_scal form_zero) by assumption.
      unfold gradient. rewrite Hs. apply vsub_self_zero. }
    apply (kkt_maximises_training_criterion p bf form_sym form_add form_scal form_psd form_zero xs ds y c); try assumption.
    - apply grad_zero_any. exact G0.
    - rewrite (grad_zero_any p bf xs y theta phi G0). lra.
  Qed.

  Theorem nnls_maximises xs ds y c theta phi :
    LP xs -> LP ds -> length y = p -> target_equiv bf xs y (unit_sum p bf ds) c ->
    nnls ROps (gram ROps W xs) (rhs ROps W xs y) = Some theta ->
    Forall (fun t => 0 <= t) phi ->
    admissible xs theta -> admissible xs phi ->
    Forall (fun t => 0 <= t) theta /\ criterion xs ds phi <= criterion xs ds theta.
  Proof.
    intros Hxs Hds Hy Heq Hs Hphi Ht Hp. apply nnls_kkt in Hs. destruct Hs as (Hnn & Hg & Hc).
    rewrite (gradient_is_grad p W form_sym form_add form_scal form_zero) in Hg, Hc by assumption.
    split; [exact Hnn|].
    apply (kkt_maximises_training_criterion p bf form_sym form_add form_scal form_psd form_zero xs ds y c); try assumption.
    apply grad_nonpos_cone; assumption.
  Qed.

  Lemma admissible_scale xs theta s : LP xs -> 0 < s -> (admissible xs (rvscale s theta) <-> admissible xs theta).
  Proof.
    intros Hxs Hs. unfold admissible.
    set (P := lincomb ROps p theta xs). set (P' := lincomb ROps p (rvscale s theta) xs).
    assert (LPp : length P = p) by (apply lincomb_len; exact Hxs).
    assert (LP' : length P' = p) by (apply lincomb_len; exact Hxs).
    assert (E1 : forall z, length z = p -> bf P' z = s * bf P z).
    { intros z Hz. unfold P', P. rewrite !(bf_lincomb_l p bf form_add form_scal form_zero) by assumption. apply rdot_vscale_l. }
    rewrite (E1 P' LP'), (form_sym P P' LPp LP'), (E1 P LPp). split; intros H.
    - assert (0 < s * s) by (apply Rmult_lt_0_compat; exact Hs). nra.
    - apply Rmult_lt_0_compat; [exact Hs|apply Rmult_lt_0_compat; [exact Hs|exact H]].
  Qed.

  (* what the regression fitters return, normalised or not, maximises the criterion over all admissible weights;
     the non-negative fitter returns non-negative weights that maximise it over the non-negative ones *)
  Theorem fit_regress_maximises m basis data normalize c theta phi :
    let xs := map (prep ROps m) basis in let ds := map (prep ROps m) data in
    LP xs -> LP ds -> length (fit_target ROps m W data) = p ->
    target_equiv bf xs (fit_target ROps m W data) (unit_sum p bf ds) c ->
    fit_regress ROps m W basis data normalize = Some theta ->
    admissible xs theta -> admissible xs phi -> criterion xs ds phi <= criterion xs ds theta.
  Proof.
    intros xs ds Hxs Hds Hy Heq Hfit Ht Hp. unfold fit_regress, fit_regress_with in Hfit. fold xs in Hfit.
    destruct (solve ROps (gram ROps W xs) (rhs ROps W xs (fit_target ROps m W data))) as [t0|] eqn:Hs; [|discriminate].
    inversion Hfit; subst theta. destruct (finish_is_scale normalize t0) as (s & Hs0 & Es). rewrite Es in *. clear Es Hfit.
    pose proof (proj1 (admissible_scale xs t0 s Hxs Hs0) Ht) as Ht0.
    destruct (criterion_scale xs ds t0 s Hxs Hds Hs0 Ht0) as [_ ->].
    apply (solve_maximises xs ds (fit_target ROps m W data) c t0 phi); assumption.
  Qed.

  Theorem fit_regress_nn_maximises m basis data normalize c theta phi :
    let xs := map (prep ROps m) basis in let ds := map (prep ROps m) data in
    LP xs -> LP ds -> length (fit_target ROps m W data) = p ->
    target_equiv bf xs (fit_target ROps m W data) (unit_sum p bf ds) c ->
    fit_regress_nn ROps m W basis data normalize = Some theta ->
    Forall (fun t => 0 <= t) phi ->
    admissible xs theta -> admissible xs phi ->
    Forall (fun t => 0 <= t) theta /\ criterion xs ds phi <= criterion xs ds theta.
  Proof.
    intros xs ds Hxs Hds Hy Heq Hfit Hphi Ht Hp. unfold fit_regress_nn, fit_regress_nn_with in Hfit. fold xs in Hfit.
    destruct (nnls ROps (gram ROps W xs) (rhs ROps W xs (fit_target ROps m W data))) as [t0|] eqn:Hs; [|discriminate].
    inversion Hfit; subst theta. destruct (finish_is_scale normalize t0) as (s & Hs0 & Es). rewrite Es in *. clear Es Hfit.
    pose proof (proj1 (admissible_scale xs t0 s Hxs Hs0) Ht) as Ht0.
    destruct (criterion_scale xs ds t0 s Hxs Hds Hs0 Ht0) as [_ ->].
    destruct (nnls_maximises xs ds (fit_target ROps m W data) c t0 phi Hxs Hds Hy Heq Hs Hphi Ht0 Hp) as [Hnn Hle].
    split; [|exact Hle]. unfold vscale. rewrite Forall_forall in *. intros v Hv. apply in_map_iff in Hv as (u & <- & Hu).
    specialize (Hnn u Hu). rsimp. nra.
  Qed.

  (* interpolation: on one segment, the fitted mixture beats every other convex mixture of the two RDMs *)
  Theorem segment_maximises m a b data c w u :
    let xs := [prep ROps m a; prep ROps m b] in let ds := map (prep ROps m) data in
    LP xs -> LP ds -> length (fit_target ROps m W data) = p ->
    target_equiv bf xs (fit_target ROps m W data) (unit_sum p bf ds) c ->
    segment_weight ROps m W a b data = Some w -> 0 <= u <= 1 ->
    admissible xs [w; 1 - w] -> admissible xs [u; 1 - u] ->
    0 <= w <= 1 /\ criterion xs ds [u; 1 - u] <= criterion xs ds [w; 1 - w].
  Proof.
    intros xs ds Hxs Hds Hy Heq Hseg Hu Hw Hadm. unfold segment_weight, segment_weight_with in Hseg. fold xs in Hseg.
    destruct (nnls ROps (gram ROps W xs) (rhs ROps W xs (fit_target ROps m W data))) as [[|t1 [|t2 [|? ?]]]|] eqn:Hs; try discriminate.
    destruct (is_zero ROps (nadd ROps t1 t2)) eqn:Ez; [discriminate|]. inversion Hseg as [Ew]. rsimp2.
    pose proof (nnls_kkt _ _ _ Hs) as (Hnn & _ & _). inversion Hnn as [|? ? H1 Hnn']; subst. inversion Hnn' as [|? ? H2 _]; subst.
    assert (Hsum : 0 < t1 + t2).
    { destruct (Req_dec (t1 + t2) 0) as [Z|Z]; [|lra]. exfalso. unfold is_zero, neqb in Ez. rsimp2. rewrite Z in Ez.
      destruct (Rle_dec 0 0); [discriminate|lra]. }
    set (s := / (t1 + t2)). assert (Hs0 : 0 < s) by (apply Rinv_0_lt_compat; exact Hsum).
    assert (Escale : [t1 / (t1 + t2); 1 - t1 / (t1 + t2)] = rvscale s [t1; t2]).
    { unfold vscale, s. cbn [map]. rsimp. f_equal; [unfold Rdiv; ring|]. f_equal. field. lra. }
    rewrite Escale in *.
    pose proof (proj1 (admissible_scale xs [t1; t2] s Hxs Hs0) Hw) as Ht0.
    destruct (criterion_scale xs ds [t1; t2] s Hxs Hds Hs0 Ht0) as [_ ->].
    split.
    - unfold s. split.
      + apply Rmult_le_pos; [exact H1|]. left. apply Rinv_0_lt_compat. exact Hsum.
      + apply Rmult_le_reg_r with (r := t1 + t2); [exact Hsum|]. unfold Rdiv. rewrite Rmult_assoc, Rinv_l by lra. lra.
    - apply (nnls_maximises xs ds (fit_target ROps m W data) c [t1; t2] [u; 1 - u]); try assumption.
      constructor; [lra|constructor; [lra|constructor]].
  Qed.
End Fitters.

(* ---------- the four targets ---------- *)
Lemma rsum_vadd (a b : list R) : length a = length b -> rsum (rvadd a b) = rsum a + rsum b.
Proof.
  revert b. induction a as [|x a IH]; intros [|y b] H; try discriminate; [cbn; lra|].
  cbn [vadd map2]. rewrite !rsum_cons. fold (rvadd a b). rewrite IH by (cbn in H; lia). rsimp. lra.
Qed.
Lemma rsum_vzero p : rsum (vzero ROps p) = 0.
Proof. induction p as [|p IH]; [reflexivity|]. cbn [vzero repeat]. fold (vzero ROps p). rewrite rsum_cons, IH. rsimp. lra. Qed.
Lemma rsum_vsum p zs : Forall (fun z => length z = p) zs -> rsum (vsum ROps p zs) = rsum (map rsum zs).
Proof.
  intros H. induction H as [|z zs Hz Hzs IH]; cbn [vsum fold_right map]; [rewrite rsum_nil; apply rsum_vzero|].
  fold (vsum ROps p zs). rewrite rsum_vadd, IH, rsum_cons; [reflexivity|]. rewrite vsum_len by exact Hzs. exact Hz.
Qed.
Lemma rsum_vdivs x s : rsum (vdivs ROps x s) = rsum x / s.
Proof. rewrite vdivs_as_scale. unfold vscale. rewrite (rsum_map_scal (/ s) (fun v => v)), map_id. unfold Rdiv. ring. Qed.

Lemma center_of_centred (y : list R) : y <> [] -> rsum y = 0 -> center ROps y = y.
Proof.
  intros Hne H. unfold center, mean. rsimp2. change (sum ROps y) with (rsum y). rewrite H.
  rewrite <- (map_id y) at 2. apply map_ext. intros v. unfold Rdiv. ring.
Qed.

Lemma shift_as_affine lo h (y : list R) : map (fun v => nadd ROps (nsub ROps v lo) h) y = map (fun v => 1 * v + (h - lo)) y.
Proof. apply map_ext. intros v. rsimp. ring. Qed.

Lemma vscale_one (y : list R) : rvscale 1 y = y.
Proof. unfold vscale. rewrite <- (map_id y) at 2. apply map_ext. intros v. rsimp. ring. Qed.

Lemma nonempty_of_len {X} p (x : list X) : (0 < p)%nat -> length x = p -> x <> [].
Proof. intros Hp H E. subst x. cbn in H. lia. Qed.

Section ConcreteTargets.
  Variable p : nat.
  Hypothesis p_pos : (0 < p)%nat.
  Notation LP xs := (Forall (fun x : list R => length x = p) xs).

  Lemma LP_map_vdivs (s : list R -> R) ds : LP ds -> LP (map (fun d => vdivs ROps d (s d)) ds).
  Proof.
    intros H. rewrite Forall_forall in *. intros v Hv. apply in_map_iff in Hv as (d & <- & Hd). unfold vdivs. rewrite map_length. apply H. exact Hd.
  Qed.
  Lemma LP_map_center ds : LP ds -> LP (map (center ROps) ds).
  Proof.
    intros H. rewrite Forall_forall in *. intros v Hv. apply in_map_iff in Hv as (d & <- & Hd). rewrite center_length. apply H. exact Hd.
  Qed.
  Lemma pooled_len (s : list R -> R) ds : LP ds ->
    length (vdivs ROps (vsum ROps p (map (fun d => vdivs ROps d (s d)) ds)) (INR (length ds))) = p.
  Proof. intros H. unfold vdivs at 1. rewrite map_length. apply vsum_len. apply LP_map_vdivs. exact H. Qed.

  (* cosine *)
  Lemma target_cosine xs data : LP xs -> LP data -> data <> [] ->
    length (fit_target ROps FCosine None data) = p /\
    target_equiv (ip ROps None) xs (fit_target ROps FCosine None data) (unit_sum p (ip ROps None) data)
                 (sqrt (INR p) / INR (length data)).
  Proof.
    intros Hxs Hds Hne. cbn [fit_target].
    rewrite (stack_mean_of_map (fun x => vdivs ROps x (rms ROps x)) p data Hne) by (try assumption; intros; unfold vdivs; apply map_length).
    split; [apply pooled_len; exact Hds|].
    apply (target_equiv_scaled p (ip ROps None) (plain_sym p) (plain_add p) (plain_scal p) (plain_zero p)); try assumption.
    - apply sqrt_lt_R0. apply lt_0_INR. exact p_pos.
    - intros d Hd. rewrite Forall_forall in Hds. rewrite <- (Hds d Hd). apply rms_is_norm.
      apply (nonempty_of_len p); [exact p_pos|apply Hds; exact Hd].
  Qed.

  (* corr: the prepared basis is centred, so the constant shift of the target is invisible *)
  Lemma target_corr basis data : LP basis -> LP data -> data <> [] ->
    let xs := map (center ROps) basis in let ds := map (center ROps) data in
    length (fit_target ROps FCorr None data) = p /\
    target_equiv (ip ROps None) xs (fit_target ROps FCorr None data) (unit_sum p (ip ROps None) ds)
                 (sqrt (INR p) / INR (length data)).
  Proof.
    intros Hb Hd Hne xs ds. cbn [fit_target].
    assert (Hds : LP ds) by (apply LP_map_center; exact Hd).
    assert (Hne' : ds <> []) by (unfold ds; destruct data; [contradiction|discriminate]).
    replace (map (fun x => vdivs ROps (center ROps x) (rms ROps (center ROps x))) data)
      with (map (fun d => vdivs ROps d (rms ROps d)) ds) by (unfold ds; rewrite map_map; reflexivity).
    rewrite (stack_mean_of_map (fun x => vdivs ROps x (rms ROps x)) p ds Hne') by (try assumption; intros; unfold vdivs; apply map_length).
    set (y0 := vdivs ROps _ _). assert (Ly0 : length y0 = p) by (apply pooled_len; exact Hds).
    rewrite shift_as_affine. split; [rewrite map_length; exact Ly0|].
    rewrite (map_ext (fun v => 1 * v + (hundredth ROps - vmin ROps y0)) (fun v => v + (hundredth ROps - vmin ROps y0)))
      by (intros; ring).
    apply target_equiv_shift.
    - unfold xs. rewrite Forall_forall in *. intros x Hx. apply in_map_iff in Hx as (b & <- & Hb').
      rewrite center_length, Ly0. split; [apply Hb; exact Hb'|]. apply rsum_center_zero.
      apply (nonempty_of_len p); [exact p_pos|apply Hb; exact Hb'].
    - unfold y0. replace (length ds) with (length data) by (unfold ds; rewrite map_length; reflexivity).
      replace (INR (length data)) with (INR (length ds)) by (unfold ds; rewrite map_length; reflexivity).
      apply (target_equiv_scaled p (ip ROps None) (plain_sym p) (plain_add p) (plain_scal p) (plain_zero p)); try assumption.
      + apply LP_map_center. exact Hb.
      + apply sqrt_lt_R0. apply lt_0_INR. exact p_pos.
      + intros d Hdd. rewrite Forall_forall in Hds. rewrite <- (Hds d Hdd). apply rms_is_norm.
        apply (nonempty_of_len p); [exact p_pos|apply Hds; exact Hdd].
  Qed.

  Variable Wm : list (list R).
  Hypothesis W_sym : forall x y, length x = p -> length y = p -> white_form Wm x y = white_form Wm y x.

  (* whitened cosine *)
  Lemma target_cosine_cov xs data : LP xs -> LP data -> data <> [] ->
    length (fit_target ROps FCosineCov (Some Wm) data) = p /\
    target_equiv (ip ROps (Some Wm)) xs (fit_target ROps FCosineCov (Some Wm) data) (unit_sum p (ip ROps (Some Wm)) data)
                 (1 / INR (length data)).
  Proof.
    intros Hxs Hds Hne. cbn [fit_target].
    rewrite (stack_mean_of_map (fun x => vdivs ROps x (nsqrt ROps (ip ROps (Some Wm) x x))) p data Hne)
      by (try assumption; intros; unfold vdivs; apply map_length).
    split; [apply (pooled_len (fun x => nsqrt ROps (ip ROps (Some Wm) x x))); exact Hds|].
    apply (target_equiv_scaled p (ip ROps (Some Wm)) W_sym (white_add p Wm) (white_scal p Wm) (white_zero p Wm) xs data
             (fun x => nsqrt ROps (ip ROps (Some Wm) x x)) 1); try assumption; try lra.
    intros d _. rsimp2. ring.
  Qed.

  (* whitened correlation: the target is re-centred, which undoes the constant shift exactly *)
  Lemma target_corr_cov basis data : LP basis -> LP data -> data <> [] ->
    let xs := map (center ROps) basis in let ds := map (center ROps) data in
    length (fit_target ROps FCorrCov (Some Wm) data) = p /\
    target_equiv (ip ROps (Some Wm)) xs (fit_target ROps FCorrCov (Some Wm) data) (unit_sum p (ip ROps (Some Wm)) ds)
                 (1 / INR (length data)).
  Proof.
    intros Hb Hd Hne xs ds. cbn [fit_target].
    assert (Hds : LP ds) by (apply LP_map_center; exact Hd).
    assert (Hne' : ds <> []) by (unfold ds; destruct data; [contradiction|discriminate]).
    replace (map (fun x => vdivs ROps (center ROps x) (nsqrt ROps (ip ROps (Some Wm) (center ROps x) (center ROps x)))) data)
      with (map (fun d => vdivs ROps d (nsqrt ROps (ip ROps (Some Wm) d d))) ds) by (unfold ds; rewrite map_map; reflexivity).
    rewrite (stack_mean_of_map (fun x => vdivs ROps x (nsqrt ROps (ip ROps (Some Wm) x x))) p ds Hne')
      by (try assumption; intros; unfold vdivs; apply map_length).
    set (y0 := vdivs ROps _ _).
    assert (Ly0 : length y0 = p) by (apply (pooled_len (fun x => nsqrt ROps (ip ROps (Some Wm) x x))); exact Hds).
    assert (Hy0ne : y0 <> []) by (apply (nonempty_of_len p); assumption).
    assert (Hsum : rsum y0 = 0).
    { unfold y0. rewrite rsum_vdivs, rsum_vsum by (apply LP_map_vdivs; exact Hds). rewrite map_map.
      rewrite (rsum_map_ext _ (fun _ => 0)); [rewrite rsum_map_const; unfold Rdiv; ring|].
      intros d Hdd. rewrite rsum_vdivs. unfold ds in Hdd. apply in_map_iff in Hdd as (d0 & <- & Hd0).
      rewrite rsum_center_zero; [unfold Rdiv; ring|]. apply (nonempty_of_len p); [exact p_pos|]. rewrite Forall_forall in Hd. apply Hd. exact Hd0. }
    rewrite shift_as_affine, center_affine, vscale_one, (center_of_centred y0 Hy0ne Hsum) by exact Hy0ne.
    split; [exact Ly0|].
    unfold y0. replace (INR (length ds)) with (INR (length data)) by (unfold ds; rewrite map_length; reflexivity).
    replace (INR (length data)) with (INR (length ds)) by (unfold ds; rewrite map_length; reflexivity).
    apply (target_equiv_scaled p (ip ROps (Some Wm)) W_sym (white_add p Wm) (white_scal p Wm) (white_zero p Wm) xs ds
             (fun x => nsqrt ROps (ip ROps (Some Wm) x x)) 1); try assumption; try lra.
    - apply LP_map_center. exact Hb.
    - intros d _. rsimp2. ring.
  Qed.
End ConcreteTargets.

(* ---------- packaged statements per method ---------- *)
Lemma prep_cosine_id l : map (prep ROps FCosine) l = l.
Proof. rewrite <- (map_id l) at 2. apply map_ext. reflexivity. Qed.
Lemma prep_cosine_cov_id l : map (prep ROps FCosineCov) l = l.
Proof. rewrite <- (map_id l) at 2. apply map_ext. reflexivity. Qed.
Lemma prep_corr_center l : map (prep ROps FCorr) l = map (center ROps) l.
Proof. apply map_ext. reflexivity. Qed.
Lemma prep_corr_cov_center l : map (prep ROps FCorrCov) l = map (center ROps) l.
Proof. apply map_ext. reflexivity. Qed.
Lemma LP_prep p m l : Forall (fun x : list R => length x = p) l -> Forall (fun x : list R => length x = p) (map (prep ROps m) l).
Proof.
  intros H. rewrite Forall_forall in *. intros v Hv. apply in_map_iff in Hv as (d & <- & Hd). unfold prep.
  destruct (centred_method m); [rewrite center_length|]; apply H; exact Hd.
Qed.

Section Packaged.
  Variable p : nat.
  Hypothesis p_pos : (0 < p)%nat.
  Notation LP xs := (Forall (fun x : list R => length x = p) xs).

  Definition plain_method (m : fmethod) : Prop := m = FCosine \/ m = FCorr.
  Definition white_method (m : fmethod) : Prop := m = FCosineCov \/ m = FCorrCov.

  Lemma plain_target m basis data : plain_method m -> LP basis -> LP data -> data <> [] ->
    length (fit_target ROps m None data) = p /\
    target_equiv (ip ROps None) (map (prep ROps m) basis) (fit_target ROps m None data)
                 (unit_sum p (ip ROps None) (map (prep ROps m) data)) (sqrt (INR p) / INR (length data)).
  Proof.
    intros [-> | ->] Hb Hd Hne.
    - rewrite !prep_cosine_id. apply target_cosine; assumption.
    - rewrite !prep_corr_center. apply target_corr; assumption.
  Qed.

  Theorem regress_plain_optimal m basis data normalize theta phi :
    plain_method m -> LP basis -> LP data -> data <> [] ->
    let xs := map (prep ROps m) basis in let ds := map (prep ROps m) data in
    fit_regress ROps m None basis data normalize = Some theta ->
    admissible p None xs theta -> admissible p None xs phi ->
    criterion p None xs ds phi <= criterion p None xs ds theta.
  Proof.
    intros Hm Hb Hd Hne xs ds Hfit Ht Hp.
    destruct (plain_target m basis data Hm Hb Hd Hne) as [Hy Heq].
    apply (fit_regress_maximises p None (plain_sym p) (plain_add p) (plain_scal p) (plain_psd p) (plain_zero p)
             m basis data normalize (sqrt (INR p) / INR (length data)) theta phi); try assumption; apply LP_prep; assumption.
  Qed.

  Theorem regress_nn_plain_optimal m basis data normalize theta phi :
    plain_method m -> LP basis -> LP data -> data <> [] ->
    let xs := map (prep ROps m) basis in let ds := map (prep ROps m) data in
    fit_regress_nn ROps m None basis data normalize = Some theta ->
    Forall (fun t => 0 <= t) phi ->
    admissible p None xs theta -> admissible p None xs phi ->
    Forall (fun t => 0 <= t) theta /\ criterion p None xs ds phi <= criterion p None xs ds theta.
  Proof.
    intros Hm Hb Hd Hne xs ds Hfit Hphi Ht Hp.
    destruct (plain_target m basis data Hm Hb Hd Hne) as [Hy Heq].
    apply (fit_regress_nn_maximises p None (plain_sym p) (plain_add p) (plain_scal p) (plain_psd p) (plain_zero p)
             m basis data normalize (sqrt (INR p) / INR (length data)) theta phi); try assumption; apply LP_prep; assumption.
  Qed.

  (* whitened: V^-1 enters as any symmetric positive-semidefinite matrix *)
  Variable Wm : list (list R).
  Hypothesis W_sym : forall x y, length x = p -> length y = p -> white_form Wm x y = white_form Wm y x.
  Hypothesis W_psd : forall x, length x = p -> 0 <= white_form Wm x x.

  Lemma white_target m basis data : white_method m -> LP basis -> LP data -> data <> [] ->
    length (fit_target ROps m (Some Wm) data) = p /\
    target_equiv (ip ROps (Some Wm)) (map (prep ROps m) basis) (fit_target ROps m (Some Wm) data)
                 (unit_sum p (ip ROps (Some Wm)) (map (prep ROps m) data)) (1 / INR (length data)).
  Proof.
    intros [-> | ->] Hb Hd Hne.
    - rewrite !prep_cosine_cov_id. apply target_cosine_cov; assumption.
    - rewrite !prep_corr_cov_center. apply target_corr_cov; assumption.
  Qed.

  Theorem regress_white_optimal m basis data normalize theta phi :
    white_method m -> LP basis -> LP data -> data <> [] ->
    let xs := map (prep ROps m) basis in let ds := map (prep ROps m) data in
    fit_regress ROps m (Some Wm) basis data normalize = Some theta ->
    admissible p (Some Wm) xs theta -> admissible p (Some Wm) xs phi ->
    criterion p (Some Wm) xs ds phi <= criterion p (Some Wm) xs ds theta.
  Proof.
    intros Hm Hb Hd Hne xs ds Hfit Ht Hp.
    destruct (white_target m basis data Hm Hb Hd Hne) as [Hy Heq].
    apply (fit_regress_maximises p (Some Wm) W_sym (white_add p Wm) (white_scal p Wm) W_psd (white_zero p Wm)
             m basis data normalize (1 / INR (length data)) theta phi); try assumption; apply LP_prep; assumption.
  Qed.

  Theorem regress_nn_white_optimal m basis data normalize theta phi :
    white_method m -> LP basis -> LP data -> data <> [] ->
    let xs := map (prep ROps m) basis in let ds := map (prep ROps m) data in
    fit_regress_nn ROps m (Some Wm) basis data normalize = Some theta ->
    Forall (fun t => 0 <= t) phi ->
    admissible p (Some Wm) xs theta -> admissible p (Some Wm) xs phi ->
    Forall (fun t => 0 <= t) theta /\ criterion p (Some Wm) xs ds phi <= criterion p (Some Wm) xs ds theta.
  Proof.
    intros Hm Hb Hd Hne xs ds Hfit Hphi Ht Hp.
    destruct (white_target m basis data Hm Hb Hd Hne) as [Hy Heq].
    apply (fit_regress_nn_maximises p (Some Wm) W_sym (white_add p Wm) (white_scal p Wm) W_psd (white_zero p Wm)
             m basis data normalize (1 / INR (length data)) theta phi); try assumption; apply LP_prep; assumption.
  Qed.
End Packaged.

(* ---------- selection ---------- *)
Lemma nltb_R a b : nltb ROps a b = true <-> a < b.
Proof. unfold nltb. rsimp2. destruct (Rle_dec b a); cbn; split; intros; try discriminate; lra. Qed.

Lemma argmax_from_spec (l : list R) : forall bi best i, (bi < i)%nat ->
  exists v, let r := argmax_from ROps bi best i l in
    ((r = bi /\ v = best) \/
     ((i <= r < i + length l)%nat /\ nth (r - i) l 0 = v /\ best < v /\ forall j, (j < r - i)%nat -> nth j l 0 < v)) /\
    best <= v /\ (forall j, (j < length l)%nat -> nth j l 0 <= v).
Proof.
  induction l as [|x l IH]; intros bi best i Hlt; cbn [argmax_from length].
  - exists best. split; [left; split; reflexivity|]. split; [lra|]. intros j Hj. lia.
  - destruct (nltb ROps best x) eqn:E.
    + apply nltb_R in E. destruct (IH i x (S i) ltac:(lia)) as (v & Hcase & Hxv & Hall). cbv zeta in *.
      set (r := argmax_from ROps i x (S i) l) in *. exists v. split; [right|split; [lra|]].
      * destruct Hcase as [[Hr Hv] | (Hr & Hn & Hlt' & Hbef)].
        -- rewrite Hr, Nat.sub_diag. cbn [nth]. split; [lia|]. split; [symmetry; exact Hv|]. split; [lra|]. intros j Hj. lia.
        -- replace (r - i)%nat with (S (r - S i)) by lia. cbn [nth]. split; [lia|]. split; [exact Hn|]. split; [lra|].
           intros [|j] Hj; cbn [nth]; [lra|]. apply Hbef. lia.
      * intros [|j] Hj; cbn [nth]; [lra|]. apply Hall. lia.
    + assert (Hle : x <= best).
      { destruct (Rle_dec x best); [assumption|]. exfalso. assert (H : best < x) by lra. apply nltb_R in H. congruence. }
      destruct (IH bi best (S i) ltac:(lia)) as (v & Hcase & Hbv & Hall). cbv zeta in *.
      set (r := argmax_from ROps bi best (S i) l) in *. exists v. split; [|split; [lra|]].
      * destruct Hcase as [[Hr Hv] | (Hr & Hn & Hlt' & Hbef)]; [left; split; assumption|right].
        replace (r - i)%nat with (S (r - S i)) by lia. cbn [nth]. split; [lia|]. split; [exact Hn|]. split; [lra|].
        intros [|j] Hj; cbn [nth]; [lra|]. apply Hbef. lia.
      * intros [|j] Hj; cbn [nth]; [lra|]. apply Hall. lia.
Qed.

(* the selected candidate has the highest value, and is the first to reach it *)
Theorem argmax_first_spec (l : list R) : l <> [] ->
  let i := argmax_first ROps l in
  (i < length l)%nat /\ (forall j, (j < length l)%nat -> nth j l 0 <= nth i l 0) /\
  (forall j, (j < i)%nat -> nth j l 0 < nth i l 0).
Proof.
  destruct l as [|x l]; [contradiction|]. intros _. cbn [argmax_first length].
  destruct (argmax_from_spec l 0%nat x 1%nat ltac:(lia)) as (v & Hcase & Hxv & Hall). cbv zeta in *.
  set (r := argmax_from ROps 0 x 1 l) in *.
  destruct Hcase as [[Hr Hv] | (Hr & Hn & Hlt' & Hbef)].
  - rewrite Hr. cbn [nth]. split; [lia|]. split.
    + intros [|j] Hj; cbn [nth]; [lra|]. rewrite <- Hv. apply Hall. lia.
    + intros j Hj. lia.
  - assert (En : nth r (x :: l) 0 = v).
    { replace r with (S (r - 1)) by lia. cbn [nth]. exact Hn. }
    rewrite En. split; [lia|]. split.
    + intros [|j] Hj; cbn [nth]; [lra|]. apply Hall. lia.
    + intros [|j] Hj; cbn [nth]; [lra|]. apply Hbef. lia.
Qed.

Theorem fit_select_is_best m W (basis data : list (list R)) : basis <> [] ->
  let i := fit_select ROps m W basis data in
  (i < length basis)%nat /\
  (forall j, (j < length basis)%nat ->
     score ROps m W data (nth j basis []) <= score ROps m W data (predict_select basis i)) /\
  (forall j, (j < i)%nat -> score ROps m W data (nth j basis []) < score ROps m W data (predict_select basis i)).
Proof.
  intros Hne. unfold fit_select, predict_select.
  assert (Hne' : map (score ROps m W data) basis <> []) by (destruct basis; [contradiction|discriminate]).
  pose proof (argmax_first_spec _ Hne') as H. cbv zeta in H. rewrite map_length in H.
  set (i := argmax_first ROps (map (score ROps m W data) basis)) in *. destruct H as (Hi & Hall & Hbefore).
  assert (Enth : forall j, (j < length basis)%nat -> nth j (map (score ROps m W data) basis) 0 = score ROps m W data (nth j basis [])).
  { intros j Hj. apply nth_map_in. exact Hj. }
  split; [exact Hi|]. split.
  - intros j Hj. rewrite <- !Enth by assumption. apply Hall. exact Hj.
  - intros j Hj. rewrite <- !Enth by lia. apply Hbefore. exact Hj.
Qed.

(* ---------- predictions ---------- *)
Lemma zero_comb p a b : rvadd (rvscale a (vzero ROps p)) (rvscale b (vzero ROps p)) = vzero ROps p.
Proof. induction p as [|q IH]; [reflexivity|]. unfold vzero, vadd, vscale in *. cbn [repeat map map2]. rewrite IH. f_equal. rsimp. ring. Qed.

Lemma map2_nil_r {X Y Z'} (f : X -> Y -> Z') a : map2 f a [] = [].
Proof. destruct a; reflexivity. Qed.

Lemma scaled_rows_len p (B : list (list R)) : Forall (fun x => length x = p) B ->
  forall th, Forall (fun x => length x = p) (map2 (vscale ROps) th B).
Proof. intros HB. induction HB as [|y B Hy _ IHB]; intros [|t ts]; cbn [map2]; constructor; [rewrite vscale_length; exact Hy|apply IHB]. Qed.

Lemma vadd_scale_distr p a b t f : forall (x P Q : list R), length x = p -> length P = p -> length Q = p ->
  rvadd (rvscale (a * t + b * f) x) (rvadd (rvscale a P) (rvscale b Q)) =
  rvadd (rvscale a (rvadd (rvscale t x) P)) (rvscale b (rvadd (rvscale f x) Q)).
Proof.
  induction p as [|q IHq]; intros [|x0 x] [|p0 P] [|q0 Q] Hx LPp LQ; try discriminate; [reflexivity|].
  cbn [vadd vscale map map2]. f_equal; [rsimp; ring|]. apply (IHq x P Q); cbn in *; lia.
Qed.

(* the prediction of a weighted model is linear in the weights *)
Theorem lincomb_linear p a b theta phi (B : list (list R)) : length theta = length phi ->
  Forall (fun x => length x = p) B ->
  lincomb ROps p (rvadd (rvscale a theta) (rvscale b phi)) B =
  rvadd (rvscale a (lincomb ROps p theta B)) (rvscale b (lincomb ROps p phi B)).
Proof.
  intros Hlen HB. revert theta phi Hlen. induction HB as [|x B Hx HB IH]; intros theta phi Hlen.
  - unfold lincomb. rewrite !map2_nil_r. cbn [vsum fold_right]. symmetry. apply zero_comb.
  - destruct theta as [|t theta], phi as [|f phi]; try discriminate.
    + unfold lincomb. cbn [vadd vscale map map2 vsum fold_right]. symmetry. apply zero_comb.
    + specialize (IH theta phi ltac:(cbn in Hlen; lia)). unfold lincomb in *.
      cbn [vadd vscale map map2 vsum fold_right].
      change (map2 (nadd ROps) (map (nmul ROps a) theta) (map (nmul ROps b) phi)) with (rvadd (rvscale a theta) (rvscale b phi)).
      change (fold_right (vadd ROps) (vzero ROps p)) with (vsum ROps p). rewrite IH.
      change (map (nmul ROps (nadd ROps (nmul ROps a t) (nmul ROps b f))) x) with (rvscale (a * t + b * f) x).
      change (map (nmul ROps t) x) with (rvscale t x). change (map (nmul ROps f) x) with (rvscale f x).
      apply (vadd_scale_distr p); [exact Hx|apply vsum_len; apply scaled_rows_len; exact HB|apply vsum_len; apply scaled_rows_len; exact HB].
Qed.

(* ---------- interpolation, packaged ---------- *)
Section PackagedInterp.
  Variable p : nat.
  Hypothesis p_pos : (0 < p)%nat.
  Notation LP xs := (Forall (fun x : list R => length x = p) xs).

  Theorem interp_segment_plain_optimal m a b data w u :
    plain_method m -> length a = p -> length b = p -> LP data -> data <> [] ->
    let xs := [prep ROps m a; prep ROps m b] in let ds := map (prep ROps m) data in
    segment_weight ROps m None a b data = Some w -> 0 <= u <= 1 ->
    admissible p None xs [w; 1 - w] -> admissible p None xs [u; 1 - u] ->
    0 <= w <= 1 /\ criterion p None xs ds [u; 1 - u] <= criterion p None xs ds [w; 1 - w].
  Proof.
    intros Hm Ha Hb Hd Hne xs ds Hseg Hu Hw Hadm.
    assert (Hab : LP [a; b]) by (constructor; [exact Ha|constructor; [exact Hb|constructor]]).
    destruct (plain_target p p_pos m [a; b] data Hm Hab Hd Hne) as [Hy Heq].
    apply (segment_maximises p None (plain_sym p) (plain_add p) (plain_scal p) (plain_psd p) (plain_zero p)
             m a b data (sqrt (INR p) / INR (length data)) w u); try assumption.
    - apply (LP_prep p m [a; b]). exact Hab.
    - apply LP_prep. exact Hd.
  Qed.

  Variable Wm : list (list R).
  Hypothesis W_sym : forall x y, length x = p -> length y = p -> white_form Wm x y = white_form Wm y x.
  Hypothesis W_psd : forall x, length x = p -> 0 <= white_form Wm x x.

  Theorem interp_segment_white_optimal m a b data w u :
    white_method m -> length a = p -> length b = p -> LP data -> data <> [] ->
    let xs := [prep ROps m a; prep ROps m b] in let ds := map (prep ROps m) data in
    segment_weight ROps m (Some Wm) a b data = Some w -> 0 <= u <= 1 ->
    admissible p (Some Wm) xs [w; 1 - w] -> admissible p (Some Wm) xs [u; 1 - u] ->
    0 <= w <= 1 /\ criterion p (Some Wm) xs ds [u; 1 - u] <= criterion p (Some Wm) xs ds [w; 1 - w].
  Proof.
    intros Hm Ha Hb Hd Hne xs ds Hseg Hu Hw Hadm.
    assert (Hab : LP [a; b]) by (constructor; [exact Ha|constructor; [exact Hb|constructor]]).
    destruct (white_target p p_pos Wm W_sym m [a; b] data Hm Hab Hd Hne) as [Hy Heq].
    apply (segment_maximises p (Some Wm) W_sym (white_add p Wm) (white_scal p Wm) W_psd (white_zero p Wm)
             m a b data (1 / INR (length data)) w u); try assumption.
    - apply (LP_prep p m [a; b]). exact Hab.
    - apply LP_prep. exact Hd.
  Qed.
End PackagedInterp.
