(* RdmProofs: provenance invariant of the RDMs container under all finite operation sequences. *)
From Coq Require Import List ZArith Bool Arith Lia Permutation Sorted.
From RSA Require Import ListLib RdmModel.
Import ListNotations.

Section Facts.
  Context {A : Type} (zero : A).
  Notation mat := (mat A).
  Notation rdms := (rdms A).

  (* ---- mapi / nth ---- *)
  Lemma mapi_from_length {X Y} (f : nat -> X -> Y) k l : length (mapi_from f k l) = length l.
  Proof. revert k; induction l as [|x l IH]; intros k; cbn; [reflexivity|]. rewrite IH. reflexivity. Qed.

  Lemma nth_mapi_from {X Y} (f : nat -> X -> Y) k l i dy dx :
    i < length l -> nth i (mapi_from f k l) dy = f (k + i) (nth i l dx).
  Proof.
    revert k i; induction l as [|x l IH]; intros k i H; cbn in H; [lia|].
    destruct i as [|i]; cbn [mapi_from nth].
    - rewrite Nat.add_0_r. reflexivity.
    - rewrite (IH (S k) i) by lia. f_equal. lia.
  Qed.

  Lemma nth_mapi {X Y} (f : nat -> X -> Y) l i dy dx :
    i < length l -> nth i (mapi f l) dy = f i (nth i l dx).
  Proof. intros H. unfold mapi. rewrite (nth_mapi_from f 0 l i dy dx H). reflexivity. Qed.

  Lemma mget_msel d sel (M : mat) i j :
    i < length sel -> j < length sel ->
    mget A (msel A zero d sel M) i j =
      if Nat.eqb i j then Some zero
      else if d && Nat.eqb (nth i sel 0) (nth j sel 0) then None
      else mget A M (nth i sel 0) (nth j sel 0).
  Proof.
    intros Hi Hj. unfold mget at 1, msel.
    rewrite (nth_mapi _ sel i [] 0 Hi). rewrite (nth_mapi _ sel j None 0 Hj). reflexivity.
  Qed.

  (* ---- positions ---- *)
  Lemma positions_from_spec {X} (f : X -> bool) k l i :
    In i (positions_from f k l) <-> exists j x, i = k + j /\ nth_error l j = Some x /\ f x = true.
  Proof.
    revert k; induction l as [|y l IH]; intros k; cbn [positions_from].
    - split; [contradiction|]. intros (j & x & _ & H & _). destruct j; discriminate.
    - destruct (f y) eqn:Fy.
      + cbn [In]. rewrite IH. split.
        * intros [<-|(j & x & -> & H1 & H2)].
          -- exists 0, y. repeat split; [lia|exact Fy].
          -- exists (S j), x. repeat split; [lia|exact H1|exact H2].
        * intros (j & x & -> & H1 & H2). destruct j as [|j].
          -- left. lia.
          -- right. exists j, x. repeat split; [lia|exact H1|exact H2].
      + rewrite IH. split.
        * intros (j & x & -> & H1 & H2). exists (S j), x. repeat split; [lia|exact H1|exact H2].
        * intros (j & x & -> & H1 & H2). destruct j as [|j].
          -- cbn in H1. injection H1 as <-. congruence.
          -- exists j, x. repeat split; [lia|exact H1|exact H2].
  Qed.

  Lemma positions_lt {X} (f : X -> bool) l i : In i (positions f l) -> i < length l.
  Proof.
    unfold positions. rewrite positions_from_spec. intros (j & x & -> & H & _).
    apply nth_error_Some. cbn. congruence.
  Qed.

  Lemma positions_from_lb {X} (f : X -> bool) k l i : In i (positions_from f k l) -> k <= i.
  Proof. rewrite positions_from_spec. intros (j & _ & -> & _). lia. Qed.

  Lemma positions_from_NoDup {X} (f : X -> bool) k l : NoDup (positions_from f k l).
  Proof.
    revert k; induction l as [|y l IH]; intros k; cbn [positions_from]; [constructor|].
    destruct (f y); [|apply IH]. constructor; [|apply IH].
    intros H. apply positions_from_lb in H. lia.
  Qed.

  (* ---- admissible index lists ---- *)
  Definition sel_ok (n : nat) (sel : list nat) : Prop := Forall (fun i => i < n) sel.

  Lemma nodupb_NoDup l : nodupb l = true -> NoDup l.
  Proof.
    induction l as [|x l IH]; intros H; [constructor|]. cbn in H. apply andb_prop in H as [H1 H2].
    constructor; [|apply IH; exact H2]. intros Hin. apply negb_true_iff in H1.
    assert (existsb (Nat.eqb x) l = true) by (apply existsb_exists; exists x; split; [exact Hin|apply Nat.eqb_refl]).
    congruence.
  Qed.

  Lemma is_perm_facts n p : is_perm_of_range n p = true -> length p = n /\ sel_ok n p /\ NoDup p.
  Proof.
    unfold is_perm_of_range. intros H. apply andb_prop in H as [H H3]. apply andb_prop in H as [H1 H2].
    split; [apply Nat.eqb_eq; exact H1|]. split; [|apply nodupb_NoDup; exact H3].
    unfold sel_ok. rewrite Forall_forall. rewrite forallb_forall in H2.
    intros x Hx. apply Nat.ltb_lt. apply H2. exact Hx.
  Qed.

  Lemma NoDup_nth_neq (sel : list nat) i j :
    NoDup sel -> i < length sel -> j < length sel -> i <> j -> nth i sel 0 <> nth j sel 0.
  Proof. intros Hn Hi Hj Hne E. apply Hne. apply (proj1 (NoDup_nth sel 0) Hn i j Hi Hj E). Qed.
End Facts.

Section Invariant.
  Context {A : Type} (zero : A).
  Notation mat := (mat A).
  Notation rdms := (rdms A).
  Notation step := (step A zero).

  (* the source object: value for RDM id r and the unordered pair of condition ids {a,b} *)
  Variable src : Z -> Z -> Z -> option A.
  Variable src_pats src_rdms : list (list Z).
  Definition pid (t : list Z) : Z := colv 0 t.
  Definition val_of (r a b : Z) : option A := if Z.eqb a b then None else src r a b.

  (* every entry is the source value of (its RDM, its two conditions' source ids); NaN exactly for
     pairs of copies of one condition (or pairs the source lacks); zero diagonal *)
  Definition mat_ok (ps : list (list Z)) (rt : list Z) (M : mat) : Prop :=
    forall i j, i < length ps -> j < length ps ->
      mget A M i j = if Nat.eqb i j then Some zero
                     else val_of (pid rt) (pid (nth i ps [])) (pid (nth j ps [])).
  Definition item_ok (ps : list (list Z)) (it : list Z * mat) : Prop :=
    In (fst it) src_rdms /\ mat_ok ps (fst it) (snd it).
  Definition Inv (s : rdms) : Prop :=
    (Forall (fun t => In t src_pats) (pats s) /\ Forall (item_ok (pats s)) (items s)) /\
    (length (pidx s) = length (pats s) /\ length (ridx s) = length (items s)).

  Lemma map_nth_length {X} (l : list X) d sel : length (map (fun i => nth i l d) sel) = length sel.
  Proof. apply map_length. Qed.

  Lemma nth_map_nth {X} (l : list X) d sel k : k < length sel ->
    nth k (map (fun i => nth i l d) sel) d = nth (nth k sel 0) l d.
  Proof.
    revert k; induction sel as [|x sel IH]; intros k H; cbn in H; [lia|].
    destruct k as [|k]; cbn [map nth]; [reflexivity|]. apply IH. lia.
  Qed.

  (* the one lemma behind subset_pattern, subsample_pattern, reorder, sort_by, permute, round trips *)
  Lemma msel_ok d ps rt (M : mat) sel :
    mat_ok ps rt M -> sel_ok (length ps) sel -> (d = true \/ NoDup sel) ->
    mat_ok (map (fun i => nth i ps []) sel) rt (msel A zero d sel M).
  Proof.
    intros HM Hsel Hd i j Hi Hj. rewrite map_length in Hi, Hj.
    rewrite (mget_msel zero d sel M i j Hi Hj).
    destruct (Nat.eqb_spec i j) as [E|E]; [reflexivity|].
    rewrite !nth_map_nth by assumption.
    unfold sel_ok in Hsel. rewrite Forall_forall in Hsel.
    assert (Si : nth i sel 0 < length ps) by (apply Hsel, nth_In; exact Hi).
    assert (Sj : nth j sel 0 < length ps) by (apply Hsel, nth_In; exact Hj).
    destruct (Nat.eqb_spec (nth i sel 0) (nth j sel 0)) as [E2|E2].
    - destruct Hd as [->|Hn].
      + cbn [andb]. rewrite E2. unfold val_of. rewrite Z.eqb_refl. reflexivity.
      + exfalso. exact (NoDup_nth_neq sel i j Hn Hi Hj E E2).
    - rewrite andb_false_r. rewrite (HM _ _ Si Sj).
      destruct (Nat.eqb_spec (nth i sel 0) (nth j sel 0)); [contradiction|reflexivity].
  Qed.

  Lemma Forall_map_nth {X} (P : X -> Prop) (l : list X) d sel :
    Forall P l -> Forall (fun i => i < length l) sel -> Forall P (map (fun i => nth i l d) sel).
  Proof.
    intros HP Hs. rewrite Forall_forall in *. intros x Hx. apply in_map_iff in Hx as (i & <- & Hi).
    apply HP. apply nth_In. apply Hs. exact Hi.
  Qed.

  Lemma pkeys_length col s : Inv s -> length (pkeys A col s) = ncond A s.
  Proof.
    intros [_ [H _]]. unfold pkeys, ncond. destruct col; [apply map_length|exact H].
  Qed.
  Lemma rkeys_length col s : Inv s -> length (rkeys A col s) = length (items s).
  Proof.
    intros [_ [_ H]]. unfold rkeys. destruct col; [apply map_length|exact H].
  Qed.

  Lemma sel_patterns_inv d sel s :
    Inv s -> sel_ok (ncond A s) sel -> (d = true \/ NoDup sel) -> Inv (sel_patterns A zero d sel s).
  Proof.
    intros [[Hp Hi] [L1 L2]] Hsel Hd. split; [split|split]; cbn [sel_patterns pats items pidx ridx].
    - apply Forall_map_nth; assumption.
    - rewrite Forall_forall in *. intros it Hit. apply in_map_iff in Hit as (it0 & <- & Hit0).
      destruct (Hi it0 Hit0) as [H1 H2]. split; cbn [fst snd]; [exact H1|].
      apply msel_ok; assumption.
    - rewrite !map_length. reflexivity.
    - rewrite map_length. exact L2.
  Qed.

  Lemma sel_rdms_inv sel s :
    Inv s -> Forall (fun i => i < length (items s)) sel -> Inv (sel_rdms A sel s).
  Proof.
    intros [[Hp Hi] [L1 L2]] Hsel. split; [split|split]; cbn [sel_rdms pats items pidx ridx]; [exact Hp| |exact L1|].
    - apply Forall_map_nth; assumption.
    - rewrite !map_length. reflexivity.
  Qed.

  Lemma reindex_inv b s : Inv s -> Inv (reindex A b s).
  Proof.
    intros H. unfold reindex. destruct b; [|exact H]. destruct H as [[Hp Hi] [L1 L2]].
    split; [split|split]; cbn [pats items pidx ridx]; auto. unfold zseq. rewrite map_length, seq_length. reflexivity.
  Qed.

  Lemma positions_sel_ok {X} (f : X -> bool) l : Forall (fun i => i < length l) (positions f l).
  Proof. rewrite Forall_forall. intros i. apply positions_lt. Qed.

  Lemma pos_each_sel_ok vals (keys : list Z) :
    Forall (fun i => i < length keys) (pos_each vals keys).
  Proof.
    unfold pos_each. rewrite Forall_forall. intros i Hi. apply in_concat in Hi as (l & Hl & Hil).
    apply in_map_iff in Hl as (v & <- & _). eapply positions_lt. exact Hil.
  Qed.

  Lemma sort_nat_sel_ok n l : Forall (fun i => i < n) l -> Forall (fun i => i < n) (sort_nat l).
  Proof.
    intros H. rewrite Forall_forall in *. intros x Hx. apply H.
    eapply Permutation_in; [apply Permutation_sym, isort_by_perm|exact Hx].
  Qed.

  Lemma map_fst_combine_seq {X} (l : list X) : map fst (combine (seq 0 (length l)) l) = seq 0 (length l).
  Proof.
    generalize 0. induction l as [|x l IH]; intros k; cbn; [reflexivity|]. rewrite IH. reflexivity.
  Qed.

  Lemma argsort_perm col (tuples : list (list Z)) :
    Permutation (argsort_col col tuples) (seq 0 (length tuples)).
  Proof.
    unfold argsort_col. rewrite <- (map_fst_combine_seq tuples) at 2.
    apply Permutation_map. apply Permutation_sym. apply isort_by_perm.
  Qed.

  Lemma perm_seq_ok n p : Permutation p (seq 0 n) -> sel_ok n p /\ NoDup p.
  Proof.
    intros H. split.
    - unfold sel_ok. rewrite Forall_forall. intros x Hx.
      apply (Permutation_in _ H) in Hx. apply in_seq in Hx. lia.
    - eapply Permutation_NoDup; [apply Permutation_sym; exact H|apply seq_NoDup].
  Qed.

  Definition op_ok (o : op A) : Prop :=
    match o with
    | OAppend other => Inv other
    | OConcat _ others => Forall Inv others
    | _ => True
    end.

  Lemma align_to_inv col first other o' :
    Inv other -> align_to A zero col first other = Some o' -> Inv o' /\ pats o' = pats first.
  Proof.
    intros Ho. unfold align_to.
    destruct (indices_of col _ _) as [ord|]; [|discriminate].
    destruct (is_perm_of_range _ ord) eqn:Hp; [|discriminate].
    destruct (tuples_eq_dec _ _) as [E|E]; [|discriminate].
    intros H. injection H as <-. split; [|exact E].
    apply is_perm_facts in Hp as (_ & H1 & H2). apply sel_patterns_inv; auto.
  Qed.

  Theorem step_inv s o : Inv s -> op_ok o -> Inv (step s o).
  Proof.
    intros HI Hok. destruct o as [col vals|col vals|col vals|col vals|idx|p|col re|col order re|other|col others|p| |];
      cbn [step].
    - (* subset_pattern *)
      apply sel_patterns_inv; [exact HI| |right; apply positions_from_NoDup].
      unfold sel_ok. rewrite <- (pkeys_length col s HI). apply positions_sel_ok.
    - (* subsample_pattern *)
      apply sel_patterns_inv; [exact HI| |left; reflexivity].
      apply sort_nat_sel_ok. rewrite <- (pkeys_length col s HI). apply pos_each_sel_ok.
    - (* subset *)
      apply sel_rdms_inv; [exact HI|]. rewrite <- (rkeys_length col s HI). apply positions_sel_ok.
    - (* subsample *)
      apply sel_rdms_inv; [exact HI|]. rewrite <- (rkeys_length col s HI). apply pos_each_sel_ok.
    - (* getitem *)
      destruct (forallb _ idx) eqn:Hf; [|exact HI]. apply sel_rdms_inv; [exact HI|].
      rewrite Forall_forall. rewrite forallb_forall in Hf. intros x Hx. apply Nat.ltb_lt. apply Hf. exact Hx.
    - (* reorder *)
      destruct (is_perm_of_range _ p) eqn:Hp; [|exact HI].
      apply is_perm_facts in Hp as (_ & H1 & H2). apply sel_patterns_inv; auto.
    - (* sort_by alpha *)
      destruct (perm_seq_ok _ _ (argsort_perm col (pats s))) as [H1 H2].
      apply reindex_inv. apply sel_patterns_inv; auto.
    - (* sort_by list *)
      destruct (indices_of col order (pats s)) as [p|]; [|exact HI].
      destruct (is_perm_of_range _ p) eqn:Hp; [|exact HI].
      apply is_perm_facts in Hp as (_ & H1 & H2). apply reindex_inv. apply sel_patterns_inv; auto.
    - (* append *)
      destruct (tuples_eq_dec _ _) as [E|E]; [|exact HI].
      destruct HI as [[Hp Hi] [L1 L2]]. destruct Hok as [[Hp' Hi'] _].
      split; [split|split]; cbn [pats items pidx ridx]; [exact Hp| |exact L1|].
      + apply Forall_app. split; [exact Hi|]. rewrite E. exact Hi'.
      + unfold zseq. rewrite map_length, seq_length. reflexivity.
    - (* concat *)
      cbn [op_ok] in Hok.
      assert (Hacc : forall l,
        fold_right (fun o acc => match align_to A zero col s o, acc with
                                 | Some o', Some l => Some (items o' ++ l) | _, _ => None end)
                   (Some []) others = Some l -> Forall (item_ok (pats s)) l).
      { induction others as [|o others IH]; cbn [fold_right]; intros l Hl.
        - injection Hl as <-. constructor.
        - inversion Hok as [|? ? Ho Hothers]; subst.
          destruct (align_to A zero col s o) as [o'|] eqn:Ha; [|discriminate].
          destruct (fold_right _ _ others) as [l'|] eqn:Hf; [|discriminate].
          injection Hl as <-. apply Forall_app. split; [|apply IH; [exact Hothers|reflexivity]].
          destruct (align_to_inv col s o o' Ho Ha) as [[[_ Hi'] _] E]. rewrite <- E. exact Hi'. }
      destruct (fold_right _ _ others) as [l|]; [|exact HI].
      destruct HI as [[Hp Hi] [L1 L2]].
      split; [split|split]; cbn [pats items pidx ridx]; [exact Hp| |exact L1|].
      + apply Forall_app. split; [exact Hi|apply Hacc; reflexivity].
      + unfold zseq. rewrite map_length, seq_length. reflexivity.
    - (* permute *)
      destruct (is_perm_of_range _ p) eqn:Hp; [|exact HI].
      apply is_perm_facts in Hp as (_ & H1 & H2). apply sel_patterns_inv; auto.
    - exact HI.
    - (* vector/matrix round trip *)
      destruct (perm_seq_ok (ncond A s) (seq 0 (ncond A s)) (Permutation_refl _)) as [H1 H2].
      apply sel_patterns_inv; auto.
  Qed.

  (* every reachable state *)
  Theorem run_inv ops s : Inv s -> Forall op_ok ops -> Inv (fold_left step ops s).
  Proof.
    revert s; induction ops as [|o ops IH]; intros s HI Hok; cbn [fold_left]; [exact HI|].
    inversion Hok as [|? ? Ho Hops]; subst. apply IH; [apply step_inv; assumption|exact Hops].
  Qed.

  (* consequences of the invariant: matrices are symmetric with zero diagonal when the source is *)
  Hypothesis src_sym : forall r a b, src r a b = src r b a.
  Theorem inv_symmetric s it i j :
    Inv s -> In it (items s) -> i < ncond A s -> j < ncond A s ->
    mget A (snd it) i j = mget A (snd it) j i /\ mget A (snd it) i i = Some zero.
  Proof.
    intros [[_ Hi] _] Hit Hli Hlj. rewrite Forall_forall in Hi. destruct (Hi it Hit) as [_ HM].
    unfold ncond in *. rewrite (HM i j Hli Hlj), (HM j i Hlj Hli), (HM i i Hli Hli).
    rewrite Nat.eqb_refl. split; [|reflexivity].
    rewrite (Nat.eqb_sym j i). destruct (Nat.eqb i j); [reflexivity|].
    unfold val_of. rewrite (Z.eqb_sym (pid (nth j (pats s) []))). rewrite src_sym. reflexivity.
  Qed.
End Invariant.

(* the number of conditions is recovered from the vector length, for every size *)
Theorem n_from_length_correct (n : N) : (1 <= n)%N -> n_from_length (n * (n - 1) / 2) = n.
Proof.
  intros Hn. unfold n_from_length.
  assert (Heven : (2 * (n * (n - 1) / 2) = n * (n - 1))%N).
  { assert (Hm : (n * (n - 1) mod 2 = 0)%N).
    { destruct (N.Even_or_Odd n) as [[k Hk]|[k Hk]].
      - subst n. rewrite <- N.mul_assoc, N.mul_comm, N.mod_mul; [reflexivity|discriminate].
      - replace (n - 1)%N with (2 * k)%N by lia.
        rewrite (N.mul_comm 2 k), N.mul_assoc, N.mod_mul; [reflexivity|discriminate]. }
    pose proof (N.div_mod (n * (n - 1)) 2 ltac:(discriminate)) as Hd. lia. }
  rewrite Heven. unfold ceil_sqrt.
  destruct (N.eq_dec n 1) as [->|Hne]; [reflexivity|].
  assert (Hs : N.sqrt (n * (n - 1)) = (n - 1)%N).
  { apply N.sqrt_unique. split; nia. }
  rewrite Hs. destruct (N.eqb_spec ((n - 1) * (n - 1)) (n * (n - 1))) as [E|E]; [nia|]. lia.
Qed.
