(* Corr_C12: executable correspondence for argument fingerprints and for the interference of in-place operations
   on observed container graphs. *)
From Coq Require Import List ZArith Bool Arith.
From RSA Require Export Prelude HeapModel.
Import ListNotations.

Record pair_obs := mkPair {
  p_heap : heap; p_target : obj; p_other : obj; p_mut : mutation;
  p_changed : bool }.      (* did the labelled content of the other object change in the implementation? *)

Inductive acase :=
| ACall (before after : list Z) (pairs : list pair_obs).

(* the model's own execution of the operation on the observed graph *)
Definition content_eqb (a b : option Z * list (option (list (Z * option Z)))) : bool :=
  let oz (x y : option Z) := match x, y with Some p, Some q => Z.eqb p q | None, None => true | _, _ => false end in
  oz (fst a) (fst b) &&
  all2 (fun x y => match x, y with
                   | Some l, Some l' => all2 (fun p q => Z.eqb (fst p) (fst q) && oz (snd p) (snd q)) l l'
                   | None, None => true
                   | _, _ => false
                   end) (snd a) (snd b).

Definition pair_verdict (p : pair_obs) : nat :=
  let h := p_heap p in
  let predicted := may_interfere h (p_target p) (p_mut p) (p_other p) in
  let model_changed := negb (content_eqb (content (apply_mutation h (p_target p) (p_mut p)) (p_other p)) (content h (p_other p))) in
  (* observational: the other object must be untouched; strict: model and implementation agree on whether it is,
     and the model's prediction is consistent with its own execution *)
  verdict (Bool.eqb predicted (p_changed p) && (negb model_changed || predicted)
           && well_formed h (p_other p) && fresh_for h (p_mut p))
          (negb (p_changed p)).

Definition acheck (c : acase) : nat :=
  match c with
  | ACall before after pairs =>
      if all2 Z.eqb before after then
        fold_left (fun acc p => match acc, pair_verdict p with
                                | 1%nat, _ => 1%nat
                                | _, 1%nat => 1%nat
                                | 2%nat, _ => 2%nat
                                | _, v => v
                                end) pairs 0%nat
      else 1%nat
  end.
