(* FormProofs: the quadratic form of an entrywise symmetric matrix is a symmetric bilinear form: the symmetry hypothesis on
   the whitening form of C08 reduces to a decidable property of the matrix (checked on every case by the correspondence). *)
From Coq Require Import List ZArith Reals Lra Lia Psatz Bool.
From RSA Require Import Prelude Vec VecR ListLib LinAlg CalcProofs CompareProofs NoiseProofs FitModel FitProofs.
Import ListNotations.
Open Scope R_scope.

Lemma rdot_as_index_sum : forall p (x y : list R), length x = p -> length y = p ->
  rdot x y = rsum (map (fun i => nth i x 0 * nth i y 0) (seq 0 p)).
Proof.
  induction p as [|p IH]; intros [|a x] [|b y] Hx Hy; try discriminate; [reflexivity|].
  rewrite rdot_cons. cbn [seq map]. rewrite rsum_cons. cbn [nth]. f_equal.
  rewrite <- seq_shift, map_map. cbn [nth]. apply IH; cbn in *; lia.
Qed.

Lemma rsum_swap {I J} (f : I -> J -> R) (li : list I) (lj : list J) :
  rsum (map (fun i => rsum (map (fun j => f i j) lj)) li) = rsum (map (fun j => rsum (map (fun i => f i j) li)) lj).
Proof.
  induction li as [|i li IH]; cbn [map].
  - rewrite rsum_nil. induction lj as [|j lj IHj]; cbn [map]; [reflexivity|]. rewrite rsum_cons, <- IHj. cbn. ring.
  - rewrite rsum_cons, IH. rewrite <- rsum_map_add. apply rsum_map_ext. intros j _. rewrite rsum_cons. reflexivity.
Qed.

Definition wentry (W : list (list R)) (i j : nat) : R := nth j (nth i W []) 0.

Lemma white_form_index p W x y : length W = p -> Forall (fun r => length r = p) W -> length x = p -> length y = p ->
  white_form W x y = rsum (map (fun i => rsum (map (fun j => nth i x 0 * wentry W i j * nth j y 0) (seq 0 p))) (seq 0 p)).
Proof.
  intros HW Hrows Hx Hy. unfold white_form.
  rewrite (rdot_as_index_sum p x (matvec ROps W y)) by (try assumption; rewrite matvec_length; exact HW).
  apply rsum_map_ext. intros i Hi. apply in_seq in Hi.
  unfold matvec. rewrite (nth_map_in (fun r => dot ROps r y) W i [] 0) by lia.
  assert (Hr : length (nth i W []) = p). { rewrite Forall_forall in Hrows. apply Hrows. apply nth_In. lia. }
  change (dot ROps (nth i W []) y) with (rdot (nth i W []) y).
  rewrite (rdot_as_index_sum p (nth i W []) y Hr Hy).
  rewrite <- rsum_map_scal. apply rsum_map_ext. intros j _. unfold wentry. ring.
Qed.

(* an entrywise symmetric square matrix gives a symmetric form *)
Theorem symmetric_matrix_symmetric_form p W :
  length W = p -> Forall (fun r => length r = p) W ->
  (forall i j, (i < p)%nat -> (j < p)%nat -> wentry W i j = wentry W j i) ->
  forall x y, length x = p -> length y = p -> white_form W x y = white_form W y x.
Proof.
  intros HW Hrows Hsym x y Hx Hy.
  rewrite (white_form_index p W x y), (white_form_index p W y x) by assumption.
  rewrite rsum_swap. apply rsum_map_ext. intros j Hj. apply rsum_map_ext. intros i Hi.
  apply in_seq in Hi, Hj. rewrite (Hsym i j) by lia. ring.
Qed.
