(* Corr_C07: executable correspondence for pool_rdm, boot_noise_ceiling and cv_noise_ceiling. *)
From Coq Require Import List ZArith QArith Bool Arith.
From RSA Require Export Prelude Vec ListLib LinAlg CompareModel NanModel RdmModel CeilModel Corr_C03.
Import ListNotations.

(* method: 0 cosine, 1 corr, 2 rho-a, 3 spearman *)
Definition pmethod (m : nat) : pool_method :=
  match m with 0%nat => PCosine | 1%nat => PCorr | _ => PRank end.
Definition simf (m : nat) : list Q -> list Q -> Q :=
  match m with 0%nat => cosine QOpsF | 1%nat => corr QOpsF | 2%nat => rho_a QOpsF | _ => spearman QOpsF end.

(* pool over the entries present in the first RDM, put back at their positions *)
Definition refillq (mask : list bool) (v : list Q) : list (option Q) :=
  (fix go (m : list bool) (v : list Q) : list (option Q) :=
     match m with
     | [] => []
     | true :: m' => match v with x :: v' => Some x :: go m' v' | [] => None :: go m' [] end
     | false :: m' => None :: go m' v
     end) mask v.
Definition pool_opt (m : nat) (stack : list (list (option Q))) : list (option Q) :=
  let mask := mask_of (hd [] stack) in
  refillq mask (pool QOpsF (pmethod m) (map (fun v => mask_list mask (map (fun o => match o with Some x => x | None => 0 end) v)) stack)).

(* similarity of a prediction with a data RDM, both with missing entries: on the commonly present entries
   (the implementation rejects differing masks; the check requires equal masks) *)
Definition sim_opt (m : nat) (pred data : list (option Q)) : option Q :=
  if bools_eqb (mask_of pred) (mask_of data) then Some (simf m (strip pred) (strip data)) else None.
Definition mean_sim_opt (m : nat) (pred : list (option Q)) (data : list (list (option Q))) : option Q :=
  let sims := map (sim_opt m pred) data in
  if forallb is_some sims then Some (mean QOpsF (map (fun o => match o with Some x => x | None => 0 end) sims)) else None.

Definition by_group {X} (groups : list Z) (xs : list X) (keep : Z -> bool) : list X :=
  map snd (filter (fun p => keep (fst p)) (combine groups xs)).

Definition boot_model (m : nat) (groups : list Z) (stack : list (list (option Q))) : option (Q * Q) :=
  let gs := sort_uniq groups in
  let full := pool_opt m stack in
  let terms := if Nat.ltb 1 (length gs)
    then map (fun g => (mean_sim_opt m (pool_opt m (by_group groups stack (fun h => negb (Z.eqb h g))))
                                      (by_group groups stack (Z.eqb g)),
                        mean_sim_opt m full (by_group groups stack (Z.eqb g)))) gs
    else [(mean_sim_opt m full stack, mean_sim_opt m full stack)] in
  if forallb (fun t => is_some (fst t) && is_some (snd t)) terms
  then Some (mean QOpsF (map (fun t => match fst t with Some x => x | None => 0 end) terms),
             mean QOpsF (map (fun t => match snd t with Some x => x | None => 0 end) terms))
  else None.

(* cv_noise_ceiling, one fold: pooled training RDMs (already restricted to the fold's test conditions) and
   pooled full data, both resampled to the test conditions with subsample_pattern, against the test RDMs *)
Definition to_mat (n : nat) (v : list (option Q)) : mat Q :=
  map (fun i => map (fun j => if Nat.eqb i j then Some 0
     else match nth (if Nat.ltb i j then vec_index n i j else vec_index n j i) v None with Some x => Some x | None => None end)
     (seq 0 n)) (seq 0 n).
Definition resample (keys : list Z) (vals : list Z) (v : list (option Q)) : list (option Q) :=
  let n := length keys in
  let sel := sort_nat (pos_each vals keys) in
  triu Q (length sel) (msel Q 0 true sel (to_mat n v)).

Record fold_obs := mkFoldObs {
  fo_train : list (list (option Q)); fo_train_keys : list Z;
  fo_test : list (list (option Q)); fo_test_vals : list Z }.

Inductive ccase :=
| CPool (m : nat) (stack : list (list (option Q))) (o : list (option Q))
| CBoot (m : nat) (groups : list Z) (stack : list (list (option Q))) (lo hi : Q)
| CCv (m : nat) (full : list (list (option Q))) (full_keys : list Z) (folds : list fold_obs) (lo hi : Q).

Definition cv_model (m : nat) full full_keys (folds : list fold_obs) : option (Q * Q) :=
  let terms := map (fun f =>
      (mean_sim_opt m (resample (fo_train_keys f) (fo_test_vals f) (pool_opt m (fo_train f))) (fo_test f),
       mean_sim_opt m (resample full_keys (fo_test_vals f) (pool_opt m full)) (fo_test f))) folds in
  if forallb (fun t => is_some (fst t) && is_some (snd t)) terms
  then Some (mean QOpsF (map (fun t => match fst t with Some x => x | None => 0 end) terms),
             mean QOpsF (map (fun t => match snd t with Some x => x | None => 0 end) terms))
  else None.

Definition ccheck (c : ccase) : nat :=
  let ok :=
    match c with
    | CPool m stack o => Qclose_optlist tol9 (pool_opt m stack) o
    | CBoot m groups stack lo hi =>
        match boot_model m groups stack with
        | Some (l, h) => Qclose tol9 l lo && Qclose tol9 h hi
        | None => false
        end
    | CCv m full keys folds lo hi =>
        match cv_model m full keys folds with
        | Some (l, h) => Qclose tol9 l lo && Qclose tol9 h hi
        | None => false
        end
    end in
  verdict ok ok.
