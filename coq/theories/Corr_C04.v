(* Corr_C04: executable correspondence for the evaluation routines: every stored evaluation against the direct comparison
   of the restricted prediction with the recorded resample / test fold, noise ceilings of the same resamples, covariance
   across usable resamples, degrees of freedom. *)
From Coq Require Import List ZArith QArith Qabs Bool Arith.
From RSA Require Export Prelude Vec ListLib LinAlg CompareModel NanModel RdmModel CeilModel FitModel EvalModel
  Corr_C03 Corr_C07.
Import ListNotations.

(* a model: kind 0 fixed (first basis RDM), 1 weighted (basis' theta), 2 select (basis RDM number theta_0) *)
Record emodel := mkEM { em_kind : nat; em_basis : list (list Q) }.
Definition epredict (p : nat) (mdl : emodel) (theta : list Q) : list Q :=
  match em_kind mdl with
  | 0%nat => hd [] (em_basis mdl)
  | 1%nat => lincomb QOpsF p theta (em_basis mdl)
  | _ => nth (Z.to_nat (Qnum (hd 0 theta) / Zpos (Qden (hd 0 theta)))) (em_basis mdl) []
  end.

Definition qsub (n : nat) (sel : list nat) (v : list Q) : list (option Q) := sub_vec 0 n sel v.
Definition optlist_close (tol : Q) := all2 (Qclose_opt tol).
Definition optmat_close (tol : Q) := all2 (optlist_close tol).

(* evaluation of one model on one resample / test fold *)
Definition eval_one (m n : nat) (sel : list nat) (pred : list Q) (vecs : list (list (option Q))) : option Q :=
  mean_sim_opt m (qsub n sel pred) vecs.

Record esample := mkES {
  es_rdm_pos : list nat;                 (* positions in the data of the RDMs of this resample *)
  es_sel : list nat;                     (* positions of the drawn conditions, as the resample holds them (sorted) *)
  es_drawn : list Z;                     (* the drawn condition labels (pattern_idx) *)
  es_vecs : list (list (option Q));      (* the recorded resample *)
  es_evals : list (option Q);            (* stored evaluations, one per model *)
  es_nc : option (Q * Q) }.              (* stored noise ceiling of this resample *)

Record efold := mkEF {
  ef_sizes : nat * nat * nat * nat;      (* RDMs in train / test set, conditions in train / test set *)
  ef_thetas : list (list Q);             (* per model: what the fitter returned for this fold *)
  ef_test_conds : list Z;                (* the conditions of the test fold *)
  ef_test_vecs : list (list (option Q)); (* the test RDMs *)
  ef_evals : list (option Q) }.
Definition ef_usable (f : efold) : bool :=
  let '(a, b, c, d) := ef_sizes f in fold_usable a b c d.
(* positions of the prediction that are compared: the fold's conditions, inside a bootstrap sample with the
   multiplicity of the draw *)
Definition ef_test_sel (drawn : option (list Z)) (f : efold) : list nat :=
  sort_nat (map Z.to_nat (match drawn with Some d => concat_sampling d (ef_test_conds f) | None => ef_test_conds f end)).

Inductive ecase :=
| EFixed (m n : nat) (models : list emodel) (thetas : list (list Q)) (data : list (list Q))
         (evals : list (list Q)) (variances : option (list (list Q))) (dof : nat)
| EBoot (kind : nat) (m n : nat) (models : list emodel) (thetas : list (list Q)) (data : list (list Q)) (boot_nc : bool)
        (samples : list esample) (variances : list (list Q)) (dof n_rdm n_cond : nat)
| ECv (m n : nat) (models : list emodel) (drawn : option (list Z)) (folds : list efold)
| EAssemble (n_cv : nat) (use_correction : bool)
            (evals : list (list (list (list (option Q)))))    (* sample x model x fold x repetition *)
            (ncs : list (list (option (Q * Q))))              (* sample x repetition *)
            (variances : list (list Q)).

Definition bkind (k : nat) : boot_kind := match k with 0%nat => BBoth | 1%nat => BPattern | _ => BRdm end.
Definition somes (l : list (option Q)) : list Q := flat_map (fun o => match o with Some x => [x] | None => [] end) l.

Definition sample_ok (s : esample) : bool := is_some (hd None (es_evals s)).
Definition boot_rows (boot_nc : bool) (n_model : nat) (samples : list esample) : list (list Q) :=
  let ok := filter sample_ok samples in
  map (fun j => somes (map (fun s => nth j (es_evals s) None) ok)) (seq 0 n_model) ++
  (if boot_nc then [map (fun s => match es_nc s with Some ab => fst ab | None => 0 end) ok;
                    map (fun s => match es_nc s with Some ab => snd ab | None => 0 end) ok] else []).

Definition check_sample (kind m n : nat) (models : list emodel) (thetas : list (list Q)) (data : list (list Q))
    (boot_nc : bool) (s : esample) : bool :=
  let p := length (hd [] data) in
  (* the resample is the recorded draw of the data *)
  optmat_close tol9 (map (fun r => qsub n (es_sel s) (nth r data [])) (es_rdm_pos s)) (es_vecs s) &&
  (if (match kind with 2%nat => true | _ => usable (es_drawn s) end) then
     optlist_close tol9 (map2 (fun mdl th => eval_one m n (es_sel s) (epredict p mdl th) (es_vecs s)) models thetas) (es_evals s) &&
     (if boot_nc then
        match boot_model m (map Z.of_nat (es_rdm_pos s)) (es_vecs s), es_nc s with
        | Some (lo, hi), Some (lo', hi') => Qclose tol9 lo lo' && Qclose tol9 hi hi'
        | _, _ => false
        end
      else true)
   else forallb (fun o => negb (is_some o)) (es_evals s) && negb (is_some (es_nc s)) || negb boot_nc && forallb (fun o => negb (is_some o)) (es_evals s)).

Definition mean_opt_list (l : list (option Q)) : Q := mean QOpsF (somes l).

Definition echeck (c : ecase) : nat :=
  let ok :=
    match c with
    | EFixed m n models thetas data evals variances dof =>
        let p := length (hd [] data) in
        let full := seq 0 n in
        let dvecs := map (map Some) data in
        Qclose_mat tol9 (map2 (fun mdl th => map (fun d => simf m (epredict p mdl th) d) data) models thetas) evals &&
        match variances with
        | Some V => Qclose_mat tol9 (cov0n_matrix QOpsF evals) V && Nat.eqb dof (length data - 1)
        | None => Nat.eqb (length data) 1 && Nat.eqb dof 0
        end
    | EBoot kind m n models thetas data boot_nc samples variances dof n_rdm n_cond =>
        forallb (check_sample kind m n models thetas data boot_nc) samples &&
        Qclose_mat tol6 (cov_matrix QOpsF (boot_rows boot_nc (length models) samples)) variances &&
        Nat.eqb dof (dof_of (bkind kind) n_rdm n_cond)
    | ECv m n models drawn folds =>
        forallb (fun f =>
          if ef_usable f then
            let p := length (hd [] (em_basis (hd (mkEM 0 []) models))) in
            optlist_close tol9 (map2 (fun mdl th => eval_one m n (ef_test_sel drawn f) (epredict p mdl th) (ef_test_vecs f)) models (ef_thetas f))
                          (ef_evals f)
          else forallb (fun o => negb (is_some o)) (ef_evals f)) folds
    | EAssemble n_cv use_correction evals ncs variances =>
        let ok := filter (fun s => is_some (hd None (hd [] (hd [] (fst s))))) (combine evals ncs) in
        let n_model := length (hd [] evals) in
        (* per usable sample and model: mean over folds and repetitions; per repetition: mean over folds *)
        let rows_mean := map (fun j => map (fun s => mean_opt_list (concat (nth j (fst s) []))) ok) (seq 0 n_model) ++
                         [map (fun s => mean QOpsF (map (fun o => match o with Some ab => fst ab | None => 0 end) (snd s))) ok;
                          map (fun s => mean QOpsF (map (fun o => match o with Some ab => snd ab | None => 0 end) (snd s))) ok] in
        let rows_rep (r : nat) :=
            map (fun j => map (fun s => mean_opt_list (map (fun fold => nth r fold None) (nth j (fst s) []))) ok) (seq 0 n_model) ++
            [map (fun s => match nth r (snd s) None with Some ab => fst ab | None => 0 end) ok;
             map (fun s => match nth r (snd s) None with Some ab => snd ab | None => 0 end) ok] in
        let vm := cov_matrix QOpsF rows_mean in
        let model_v := if use_correction && Nat.ltb 1 n_cv
                       then mat_map2 (cv_correct QOpsF n_cv) vm (mat_mean QOpsF (map (fun r => cov_matrix QOpsF (rows_rep r)) (seq 0 n_cv)))
                       else vm in
        Qclose_mat tol6 model_v variances
    end in
  verdict ok ok.
