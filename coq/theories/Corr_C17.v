(* Corr_C17: executable correspondence for the RDM transforms. *)
From Coq Require Import List ZArith QArith Qround Bool Arith.
From RSA Require Export Prelude Vec CompareModel NanModel TransformModel.
Import ListNotations.

Fixpoint qinsert (x : Q) (l : list Q) : list Q :=
  match l with [] => [x] | y :: t => if Qle_bool x y then x :: y :: t else y :: qinsert x t end.
Definition qsort (l : list Q) : list Q := fold_right qinsert [] l.

(* np.quantile (linear interpolation) of all values of the stack *)
Definition quantile (q : Q) (l : list Q) : Q :=
  let s := qsort l in
  let h := Qred (q * inject_Z (Z.of_nat (length s - 1))) in
  let lo := Qfloor h in
  let a := nth (Z.to_nat lo) s 0 in
  let b := nth (Z.to_nat lo + 1) s a in
  Qred (a + (h - inject_Z lo) * (b - a)).

Inductive tcase :=
| TRank (m : rank_method) (v : list (option Q)) (o : list (option Q))
| TSqrt (v : list Q) (o : list Q)
| TPositive (v : list Q) (o : list Q)
| TMinmax (v : list Q) (o : list Q)
| TGeotopo (low up : Q) (stack : list (list Q)) (o : list (list Q))
| TGeodesic (n : nat) (v : list Q) (o : list (option Q)).

Definition tcheck (c : tcase) : nat :=
  let ok :=
    match c with
    | TRank m v o => Qclose_optlist tol9 (rank_transform QOps m v) o
    | TSqrt v o => Qclose_list tol9 (map (sqrt_clip QOps) v) o
    | TPositive v o => Qclose_list tol9 (map (positive QOps) v) o
    | TMinmax v o => Qclose_list tol9 (minmax QOps v) o
    | TGeotopo low up stack o =>
        let allv := concat stack in
        let lo := quantile low allv in let hi := quantile up allv in
        Qclose_mat tol9 (map (map (geotopo QOps lo hi)) stack) o
    | TGeodesic n v o => Qclose_optlist tol9 (geodesic QOps n v) o
    end in
  verdict ok ok.
