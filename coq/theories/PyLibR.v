(* PyLibR: facts over the reals about the NumPy matrix layer of PyLib (used by the tie proofs in coq/tie). *)
From Coq Require Import List ZArith Reals Lra Lia.
From RSA Require Import Prelude Vec VecR PyLib.
Import ListNotations.
Open Scope R_scope.

Lemma triu_map_ext {A B} (f g : A -> A -> B) l : (forall a b, f a b = g a b) -> triu_map f l = triu_map g l.
Proof.
  intros H. induction l as [|x t IH]; [reflexivity|]. cbn [triu_map]. rewrite IH. f_equal.
  apply map_ext. intros b. apply H.
Qed.
Lemma map_triu_map {A B C} (h : B -> C) (f : A -> A -> B) l : map h (triu_map f l) = triu_map (fun a b => h (f a b)) l.
Proof. induction l as [|x t IH]; [reflexivity|]. cbn [triu_map]. rewrite map_app, map_map, IH. reflexivity. Qed.
Lemma map2_same {A B} (f : A -> A -> B) l : map2 f l l = map (fun x => f x x) l.
Proof. induction l as [|x t IH]; [reflexivity|]. cbn [map2 map]. rewrite IH. reflexivity. Qed.
Lemma pairwise_ext {F X} (f g : X -> X -> F) rows : (forall a b, f a b = g a b) -> pairwise f rows = pairwise g rows.
Proof. intros H. unfold pairwise. apply map_ext. intros a. apply map_ext. intros b. apply H. Qed.

Lemma pairwise_ext_in {X} (f g : X -> X -> R) rows :
  (forall a b, In a rows -> In b rows -> f a b = g a b) -> pairwise f rows = pairwise g rows.
Proof. intros H. unfold pairwise. apply map_ext_in. intros a Ha. apply map_ext_in. intros b Hb. apply H; assumption. Qed.

Lemma rdot_zero_l q b : rdot (vzero ROps q) b = 0.
Proof.
  unfold vzero. revert b. induction q as [|q IH]; intros b; [reflexivity|]. cbn [repeat].
  destruct b as [|y b]; [reflexivity|]. rewrite rdot_cons, IH. cbn [n0 ROps]. lra.
Qed.

Lemma vsum_len q (l : list (list R)) : Forall (fun x => length x = q) l -> length (vsum ROps q l) = q.
Proof.
  induction 1 as [|x l Hx Hl IH]; cbn [vsum fold_right]; [unfold vzero; apply repeat_length|].
  change (fold_right (vadd ROps) (vzero ROps q) l) with (vsum ROps q l).
  rewrite vadd_length; [exact Hx|]. rewrite Hx, IH. reflexivity.
Qed.

(* (a @ N) . b = a . (N b): a row vector times a matrix, as the linear combination of the rows *)
Lemma dot_vecmat q (a : list R) (N : list (list R)) (b : list R) :
  Forall (fun r => length r = q) N ->
  rdot (vsum ROps q (map2 (vscale ROps) a N)) b = rdot a (matvec ROps N b).
Proof.
  intros HN. revert a. induction HN as [|r N Hr HN IH]; intros a.
  - destruct a; cbn [map2 vsum fold_right matvec map]; rewrite rdot_zero_l; [reflexivity|rewrite rdot_nil_r; reflexivity].
  - destruct a as [|x a]; [cbn [map2 vsum fold_right]; rewrite rdot_zero_l; reflexivity|].
    cbn [map2 vsum fold_right matvec map].
    change (fold_right (vadd ROps) (vzero ROps q) (map2 (vscale ROps) a N)) with (vsum ROps q (map2 (vscale ROps) a N)).
    change (map (fun r0 => dot ROps r0 b) N) with (matvec ROps N b).
    rewrite rdot_vadd_l.
    2:{ rewrite vscale_length, Hr. symmetry. apply vsum_len.
        clear IH. revert a. induction HN as [|r' N' Hr' HN' IH']; intros a; destruct a; cbn [map2]; constructor.
        - rewrite vscale_length. exact Hr'.
        - apply IH'. }
    rewrite rdot_vscale_l, rdot_cons, IH. reflexivity.
Qed.

