(* TransformProofs: rank-based measures are invariant under strictly increasing maps, cosine-type
   under positive scaling, correlation-type under positive affine maps; minmax is increasing onto [0,1] (C17). *)
From Coq Require Import List ZArith Reals Lra Lia Psatz Permutation Bool.
From RSA Require Import Prelude Vec VecR LinAlg CompareModel CompareProofs NanModel TransformModel.
Import ListNotations.
Open Scope R_scope.

Definition strictly_increasing (f : R -> R) : Prop := forall a b, a < b -> f a < f b.

Lemma incr_lt_iff f a b : strictly_increasing f -> (f a < f b <-> a < b).
Proof.
  intros Hf. split; [|apply Hf]. intros H.
  destruct (Rtotal_order a b) as [L|[E|G]]; [exact L|subst; lra|]. apply Hf in G. lra.
Qed.

Lemma nltb_R a b : nltb ROps a b = true <-> a < b.
Proof. unfold nltb. rsimp2. destruct (Rle_dec b a); cbn [negb]; split; intros H; try lra; try discriminate; reflexivity. Qed.

Lemma nltb_incr f a b : strictly_increasing f -> nltb ROps (f a) (f b) = nltb ROps a b.
Proof.
  intros Hf. destruct (nltb ROps a b) eqn:E.
  - apply nltb_R. apply Hf. apply nltb_R. exact E.
  - destruct (nltb ROps (f a) (f b)) eqn:E2; [|reflexivity].
    apply nltb_R in E2. apply (incr_lt_iff f a b Hf) in E2. apply nltb_R in E2. congruence.
Qed.

Lemma neqb_R a b : neqb ROps a b = true <-> a = b.
Proof.
  unfold neqb. rsimp2. destruct (Rle_dec a b), (Rle_dec b a); cbn [andb]; split; intros H; try lra; try discriminate; reflexivity.
Qed.

Lemma neqb_incr f a b : strictly_increasing f -> neqb ROps (f a) (f b) = neqb ROps a b.
Proof.
  intros Hf. destruct (neqb ROps a b) eqn:E.
  - apply neqb_R in E. subst. apply neqb_R. reflexivity.
  - destruct (neqb ROps (f a) (f b)) eqn:E2; [|reflexivity]. apply neqb_R in E2.
    assert (a = b).
    { destruct (Rtotal_order a b) as [L|[Eq|G]]; [apply Hf in L; lra|exact Eq|apply Hf in G; lra]. }
    apply neqb_R in H. congruence.
Qed.

Lemma filter_map_length {X Y} (p : Y -> bool) (f : X -> Y) l :
  length (filter p (map f l)) = length (filter (fun x => p (f x)) l).
Proof. induction l as [|x l IH]; cbn; [reflexivity|]. destruct (p (f x)); cbn; rewrite IH; reflexivity. Qed.

Lemma filter_ext_length {X} (p q : X -> bool) l : (forall x, p x = q x) -> length (filter p l) = length (filter q l).
Proof. intros H. rewrite (filter_ext p q H). reflexivity. Qed.

(* tie-averaged ranks are unchanged by any strictly increasing map *)
Theorem ranks_monotone_invariant f l : strictly_increasing f -> ranks ROps (map f l) = map (rank_of ROps l) l.
Proof.
  intros Hf. unfold ranks. rewrite map_map. apply map_ext. intros a.
  unfold rank_of, count. rewrite !filter_map_length.
  rewrite (filter_ext_length (fun x => nltb ROps (f x) (f a)) (fun x => nltb ROps x a)) by (intros; apply nltb_incr; exact Hf).
  rewrite (filter_ext_length (fun x => neqb ROps (f x) (f a)) (fun x => neqb ROps x a)) by (intros; apply neqb_incr; exact Hf).
  reflexivity.
Qed.

Corollary ranks_map_eq f l : strictly_increasing f -> ranks ROps (map f l) = ranks ROps l.
Proof. intros Hf. rewrite ranks_monotone_invariant by exact Hf. reflexivity. Qed.

Theorem spearman_monotone_invariant f g x y : strictly_increasing f -> strictly_increasing g ->
  spearman ROps (map f x) (map g y) = spearman ROps x y.
Proof. intros Hf Hg. unfold spearman. rewrite !ranks_map_eq by assumption. reflexivity. Qed.

Theorem rho_a_monotone_invariant f g x y : strictly_increasing f -> strictly_increasing g ->
  rho_a ROps (map f x) (map g y) = rho_a ROps x y.
Proof. intros Hf Hg. unfold rho_a. rewrite !ranks_map_eq by assumption. rewrite map_length. reflexivity. Qed.

Lemma sgn_incr f a b : strictly_increasing f -> sgn ROps (f a) (f b) = sgn ROps a b.
Proof. intros Hf. unfold sgn. rewrite !nltb_incr by exact Hf. reflexivity. Qed.

Lemma combine_map_both {X Y X' Y'} (f : X -> X') (g : Y -> Y') x y :
  combine (map f x) (map g y) = map (fun p => (f (fst p), g (snd p))) (combine x y).
Proof. exact (combine_map_map f g x y). Qed.

Lemma con_minus_dis_incr f g x y : strictly_increasing f -> strictly_increasing g ->
  con_minus_dis ROps (map f x) (map g y) = con_minus_dis ROps x y.
Proof.
  intros Hf Hg. unfold con_minus_dis, pair_sum. rewrite combine_map_both, triu_map_map. f_equal.
  apply triu_map_ext. intros a b. cbn [fst snd]. rewrite (sgn_incr f), (sgn_incr g) by assumption. reflexivity.
Qed.

Theorem tau_a_monotone_invariant f g x y : strictly_increasing f -> strictly_increasing g ->
  tau_a ROps (map f x) (map g y) = tau_a ROps x y.
Proof.
  intros Hf Hg. unfold tau_a, n_pairs. rewrite con_minus_dis_incr by assumption. rewrite map_length. reflexivity.
Qed.

Lemma untied_incr f x : strictly_increasing f -> untied ROps (map f x) = untied ROps x.
Proof.
  intros Hf. unfold untied, pair_sum. rewrite combine_map_both, triu_map_map. f_equal.
  apply triu_map_ext. intros a b. cbn [fst snd]. rewrite !(sgn_incr f) by assumption. reflexivity.
Qed.

Theorem tau_b_monotone_invariant f g x y : strictly_increasing f -> strictly_increasing g ->
  tau_b ROps (map f x) (map g y) = tau_b ROps x y.
Proof.
  intros Hf Hg. unfold tau_b. rewrite con_minus_dis_incr, (untied_incr f), (untied_incr g) by assumption. reflexivity.
Qed.

(* sqrt is strictly increasing on non-negative numbers; extended to a strictly increasing map of R *)
Definition sqrt_ext (x : R) : R := if Rle_dec 0 x then sqrt x else x.
Lemma sqrt_ext_incr : strictly_increasing sqrt_ext.
Proof.
  intros a b H. unfold sqrt_ext. destruct (Rle_dec 0 a), (Rle_dec 0 b); try lra.
  - apply sqrt_lt_1; lra.
  - assert (0 <= sqrt b) by apply sqrt_pos. lra.
Qed.
Lemma sqrt_ext_nonneg l : (forall x, In x l -> 0 <= x) -> map sqrt_ext l = map (sqrt_clip ROps) l.
Proof.
  intros H. apply map_ext_in. intros x Hx. unfold sqrt_ext, sqrt_clip, positive, nmax. rsimp2.
  specialize (H x Hx). destruct (Rle_dec 0 x); [|lra]. destruct (Rle_dec x 0); [|reflexivity].
  assert (x = 0) by lra. subst. reflexivity.
Qed.

(* sqrt_transform of non-negative RDMs never changes a rank-based evaluation *)
Corollary sqrt_preserves_spearman x y : (forall v, In v x -> 0 <= v) -> (forall v, In v y -> 0 <= v) ->
  spearman ROps (map (sqrt_clip ROps) x) (map (sqrt_clip ROps) y) = spearman ROps x y.
Proof.
  intros Hx Hy. rewrite <- (sqrt_ext_nonneg x Hx), <- (sqrt_ext_nonneg y Hy).
  apply spearman_monotone_invariant; apply sqrt_ext_incr.
Qed.
Corollary sqrt_preserves_tau_a x y : (forall v, In v x -> 0 <= v) -> (forall v, In v y -> 0 <= v) ->
  tau_a ROps (map (sqrt_clip ROps) x) (map (sqrt_clip ROps) y) = tau_a ROps x y.
Proof.
  intros Hx Hy. rewrite <- (sqrt_ext_nonneg x Hx), <- (sqrt_ext_nonneg y Hy).
  apply tau_a_monotone_invariant; apply sqrt_ext_incr.
Qed.

(* ---------- cosine: positive scaling; correlation: positive affine maps ---------- *)
Lemma sqrt_scale a d : 0 < a -> 0 <= d -> sqrt (a * a * d) = a * sqrt d.
Proof.
  intros Ha Hd. rewrite sqrt_mult by nra. rewrite sqrt_square by lra. reflexivity.
Qed.

Theorem cosine_scale_invariant a x y : 0 < a -> cosine ROps (vscale ROps a x) y = cosine ROps x y.
Proof.
  intros Ha. unfold cosine. rewrite rdot_vscale_l, rdot_vscale_r, rdot_vscale_l. rsimp2.
  replace (a * (a * rdot x x)) with (a * a * rdot x x) by ring.
  rewrite (sqrt_scale a (rdot x x) Ha (rdot_self_nonneg x)).
  assert (Hp : is_pos ROps (a * sqrt (rdot x x)) = is_pos ROps (sqrt (rdot x x))).
  { destruct (is_pos ROps (sqrt (rdot x x))) eqn:E.
    - apply is_pos_R. apply is_pos_R in E. nra.
    - apply is_pos_R_false. apply is_pos_R_false in E. pose proof (sqrt_pos (rdot x x)). nra. }
  rewrite Hp. destruct (is_pos ROps (sqrt (rdot x x))) eqn:E; [|reflexivity].
  destruct (is_pos ROps (sqrt (rdot y y))) eqn:E2; [|reflexivity]. cbn [andb].
  apply is_pos_R in E. apply is_pos_R in E2. field. repeat split; lra.
Qed.

Lemma center_affine a b x : x <> [] ->
  center ROps (map (fun v => a * v + b) x) = vscale ROps a (center ROps x).
Proof.
  intros Hne. unfold center, vscale. rewrite !map_map.
  assert (Hm : mean ROps (map (fun v => a * v + b) x) = a * mean ROps x + b).
  { unfold mean, ofnat. rewrite map_length. rsimp2.
    rewrite (rsum_map_add (fun v => a * v) (fun _ => b)), rsum_map_scal, rsum_map_const.
    rewrite map_id. rewrite <- INR_IZR_INZ.
    assert (INR (length x) <> 0) by (destruct x; [contradiction|cbn [length]; rewrite S_INR; pose proof (pos_INR (length x)); lra]).
    field. exact H. }
  apply map_ext. intros v. rewrite Hm. rsimp2. ring.
Qed.

Theorem corr_affine_invariant a b x y : 0 < a -> x <> [] ->
  corr ROps (map (fun v => a * v + b) x) y = corr ROps x y.
Proof.
  intros Ha Hne. unfold corr. rewrite center_affine by exact Hne. apply cosine_scale_invariant. exact Ha.
Qed.

(* ---------- minmax: increasing affine map onto [0,1] ---------- *)
Theorem minmax_range_monotone lo hi x y : lo < hi -> lo <= x <= hi -> lo <= y <= hi ->
  0 <= (x - lo) / (hi - lo) <= 1 /\ (x < y -> (x - lo) / (hi - lo) < (y - lo) / (hi - lo)) /\
  (lo - lo) / (hi - lo) = 0 /\ (hi - lo) / (hi - lo) = 1.
Proof.
  intros H Hx Hy. assert (Hd : 0 < hi - lo) by lra.
  assert (Hi : 0 < / (hi - lo)) by (apply Rinv_0_lt_compat; exact Hd).
  unfold Rdiv. repeat split.
  - apply Rmult_le_pos; lra.
  - apply Rmult_le_reg_r with (r := hi - lo); [exact Hd|]. rewrite Rmult_assoc, Rinv_l by lra. lra.
  - intros Hxy. apply Rmult_lt_compat_r; lra.
  - lra.
  - apply Rinv_r. lra.
Qed.

Lemma nmin_R a b : nmin ROps a b <= a /\ nmin ROps a b <= b.
Proof. unfold nmin. rsimp2. destruct (Rle_dec a b); lra. Qed.
Lemma nmax_R a b : a <= nmax ROps a b /\ b <= nmax ROps a b.
Proof. unfold nmax. rsimp2. destruct (Rle_dec a b); lra. Qed.

Lemma list_min_le (l : list R) x : In x l -> list_min ROps l <= x.
Proof.
  unfold list_min. generalize (hd (n0 ROps) l). intros d. induction l as [|a l IH]; intros H; [contradiction|].
  cbn [fold_right]. destruct (nmin_R a (fold_right (nmin ROps) d l)) as [H1 H2].
  destruct H as [->|H]; [exact H1|]. specialize (IH H). lra.
Qed.

Lemma list_max_ge (l : list R) x : In x l -> x <= list_max ROps l.
Proof.
  unfold list_max. generalize (hd (n0 ROps) l). intros d. induction l as [|a l IH]; intros H; [contradiction|].
  cbn [fold_right]. destruct (nmax_R a (fold_right (nmax ROps) d l)) as [H1 H2].
  destruct H as [->|H]; [exact H1|]. specialize (IH H). lra.
Qed.

Theorem minmax_in_unit_interval (l : list R) v :
  list_min ROps l < list_max ROps l -> In v (minmax ROps l) -> 0 <= v <= 1.
Proof.
  intros H Hv. unfold minmax in Hv. apply in_map_iff in Hv as (x & <- & Hx). rsimp2.
  apply (minmax_range_monotone (list_min ROps l) (list_max ROps l) x x H);
    split; try (apply list_min_le; exact Hx); apply list_max_ge; exact Hx.
Qed.

(* the clipped-linear (geo-topological) map is nondecreasing with values in [0,1] *)
Theorem geotopo_range lo hi x : lo < hi -> 0 <= geotopo ROps lo hi x <= 1.
Proof.
  intros H. unfold geotopo. destruct (nltb ROps x lo) eqn:E1; [rsimp2; lra|].
  destruct (nltb ROps hi x) eqn:E2; [rsimp2; lra|]. rsimp2.
  assert (lo <= x) by (destruct (Rle_dec lo x); [assumption|exfalso; assert (x < lo) by lra; apply nltb_R in H0; congruence]).
  assert (x <= hi) by (destruct (Rle_dec x hi); [assumption|exfalso; assert (hi < x) by lra; apply nltb_R in H1; congruence]).
  apply (minmax_range_monotone lo hi x x H); split; assumption.
Qed.
