(* C05 — folds partition the data and test data never influence fitting. *)
From Coq Require Import List ZArith Bool Arith Permutation.
From RSA Require Import ListLib RdmModel RdmProofs FoldModel FoldProofs.
Import ListNotations.

(* every group index is in exactly one test fold, for all 0 < k <= n *)
Theorem C05_kfold_partition : forall n k, 0 < k -> k <= n ->
  Permutation (concat (map (kfold_test n k) (seq 0 k))) (seq 0 n).
Proof. exact kfold_partition. Qed.
Print Assumptions C05_kfold_partition.

Theorem C05_tests_pairwise_disjoint : forall n k, 0 < k -> k <= n ->
  NoDup (concat (map (kfold_test n k) (seq 0 k))).
Proof. exact kfold_tests_disjoint. Qed.
Print Assumptions C05_tests_pairwise_disjoint.

(* fold sizes differ by at most one *)
Theorem C05_fold_sizes : forall n k i,
  length (kfold_test n k i) = n / k + (if i <? n mod k then 1 else 0).
Proof. exact kfold_test_size. Qed.
Print Assumptions C05_fold_sizes.

(* training indices = complement of the test indices whenever more than one fold is requested *)
Theorem C05_train_is_complement : forall n k i j, 1 < k ->
  In j (kfold_train n k i) <-> j < n /\ ~ In j (kfold_test n k i).
Proof. exact kfold_train_complement. Qed.
Print Assumptions C05_train_is_complement.

(* for EVERY ordering of the groups (every shuffle outcome) the test value lists partition the groups ... *)
Theorem C05_every_shuffle_partitions : forall (order : list Z) k, 0 < k -> k <= length order ->
  Permutation (concat (map (fun i => vals_at order (kfold_test (length order) k i)) (seq 0 k))) order.
Proof. exact kfold_values_partition. Qed.
Print Assumptions C05_every_shuffle_partitions.

(* ... and no test group is a training group of the same fold *)
Theorem C05_test_train_disjoint : forall (order : list Z) k i v,
  NoDup order -> 1 < k -> 0 < k -> k <= length order -> i < k ->
  In v (vals_at order (kfold_test (length order) k i)) ->
  ~ In v (vals_at order (kfold_train (length order) k i)).
Proof. exact kfold_values_disjoint. Qed.
Print Assumptions C05_test_train_disjoint.

(* an item is handed out iff its descriptor value is among the fold's values: groups (and bootstrap
   copies, which share the value) are never split *)
Theorem C05_selected_iff_value_requested : forall vals keys i,
  (In i (pos_in vals keys) <-> i < length keys /\ In (nth i keys 0%Z) vals) /\
  (In i (pos_each vals keys) <-> i < length keys /\ In (nth i keys 0%Z) vals).
Proof. intros. split; [apply pos_in_spec|apply pos_each_spec]. Qed.
Print Assumptions C05_selected_iff_value_requested.

Theorem C05_groups_not_split : forall vals keys i j,
  i < length keys -> j < length keys -> nth i keys 0%Z = nth j keys 0%Z ->
  (In i (pos_in vals keys) <-> In j (pos_in vals keys)) /\
  (In i (pos_each vals keys) <-> In j (pos_each vals keys)).
Proof. exact group_not_split. Qed.
Print Assumptions C05_groups_not_split.

(* non-interference: the object handed out for a selection of conditions / RDMs is unchanged by any
   alteration of entries involving a non-selected condition, or of non-selected RDMs *)
Theorem C05_training_set_ignores_unselected_conditions :
  forall (A : Type) (zero : A) d sel (s s' : rdms A),
  pats s = pats s' -> pidx s = pidx s' -> ridx s = ridx s' -> map fst (items s) = map fst (items s') ->
  Forall2 (fun it it' => forall i j, In i sel -> In j sel -> mget A (snd it) i j = mget A (snd it') i j)
          (items s) (items s') ->
  sel_patterns A zero d sel s = sel_patterns A zero d sel s'.
Proof. exact @sel_patterns_depends_on_selected. Qed.
Print Assumptions C05_training_set_ignores_unselected_conditions.

Theorem C05_training_set_ignores_unselected_rdms :
  forall (A : Type) sel (s s' : rdms A),
  pats s = pats s' -> pidx s = pidx s' -> ridx s = ridx s' ->
  (forall i, In i sel -> nth i (items s) ([], []) = nth i (items s') ([], [])) ->
  sel_rdms A sel s = sel_rdms A sel s'.
Proof. exact @sel_rdms_depends_on_selected. Qed.
Print Assumptions C05_training_set_ignores_unselected_rdms.

(* contents are exact: every handed-out object satisfies the provenance invariant (C10) *)
Theorem C05_contents_exact :
  forall (A : Type) (zero : A) (src : Z -> Z -> Z -> option A) (src_pats src_rdms : list (list Z))
         (s : rdms A) (o : op A),
  Inv zero src src_pats src_rdms s -> op_ok zero src src_pats src_rdms o ->
  Inv zero src src_pats src_rdms (step A zero s o).
Proof. exact @step_inv. Qed.
Print Assumptions C05_contents_exact.

Example C05_example : kfold_test 7 3 0 = [0; 1; 6] /\ kfold_test 7 3 1 = [2; 3] /\ kfold_train 7 3 0 = [2; 3; 4; 5].
Proof. repeat split. Qed.
