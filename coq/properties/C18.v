(* C18 — simulated data reproduce the generating model's RDM. *)
From Coq Require Import List ZArith Reals Bool.
From RSA Require Import Prelude Vec VecR LinAlg SimModel SimProofs.
Import ListNotations.

(* the design lists every condition exactly once per partition *)
Theorem C18_design_every_condition_once_per_partition : forall n_cond n_part p c, (p < n_part)%nat -> (c < n_cond)%nat ->
  nth (p * n_cond + c) (fst (make_design n_cond n_part)) 0%nat = c /\
  nth (p * n_cond + c) (snd (make_design n_cond n_part)) 0%nat = p.
Proof. exact design_every_condition_once_per_partition. Qed.
Print Assumptions C18_design_every_condition_once_per_partition.

Theorem C18_design_lengths : forall n_cond n_part,
  length (fst (make_design n_cond n_part)) = (n_part * n_cond)%nat /\ length (snd (make_design n_cond n_part)) = (n_part * n_cond)%nat.
Proof. exact design_lengths. Qed.
Print Assumptions C18_design_lengths.

Open Scope R_scope.
(* the second moment G = -1/2 H D H of a symmetric RDM matrix with zero diagonal gives the dissimilarities back *)
Theorem C18_double_centring_inverts : forall D : list (list R),
  (forall i j, mentry ROps D i j = mentry ROps D j i) -> (forall i, mentry ROps D i i = 0) ->
  (forall i, row_mean ROps D i = col_mean ROps D i) ->
  forall i j, (i < length D)%nat -> (j < length D)%nat ->
  mentry ROps (double_center ROps D) i i + mentry ROps (double_center ROps D) j j
    - 2 * mentry ROps (double_center ROps D) i j = mentry ROps D i j.
Proof. intros D Hs Hh Hrc. exact (double_centring_inverts D Hh Hrc). Qed.
Print Assumptions C18_double_centring_inverts.

(* exact signal: ANY patterns whose Gram matrix is c times the second moment have squared distances c times the RDM;
   with c = signal * n_channel and calc_rdm's division by n_channel the estimated RDM is signal * model RDM *)
Theorem C18_exact_second_moment_gives_exact_rdm : forall (D U : list (list R)) (c : R) i j,
  (forall a b, mentry ROps D a b = mentry ROps D b a) -> (forall a, mentry ROps D a a = 0) ->
  (forall a, row_mean ROps D a = col_mean ROps D a) ->
  (i < length D)%nat -> (j < length D)%nat -> length (nth i U []) = length (nth j U []) ->
  (forall a b, (a < length D)%nat -> (b < length D)%nat ->
     dot ROps (nth a U []) (nth b U []) = c * mentry ROps (double_center ROps D) a b) ->
  sqdist ROps (nth i U []) (nth j U []) = c * mentry ROps D i j.
Proof. exact exact_second_moment_gives_exact_rdm. Qed.
Print Assumptions C18_exact_second_moment_gives_exact_rdm.

(* the noise term is additive and scales with the square root of the noise variance *)
Theorem C18_noise_additive_sqrt_scaling : forall cond_vec U signal v (E : list (list R)) k,
  0 <= v -> (k < length cond_vec)%nat -> (k < length E)%nat ->
  length (nth k (expand cond_vec U) []) = length (nth k E []) ->
  nth k (assemble ROps cond_vec U signal v E) [] =
  vadd ROps (nth k (assemble ROps cond_vec U signal 0 E) []) (vscale ROps (sqrt v) (nth k E [])).
Proof. exact noise_additive_sqrt_scaling. Qed.
Print Assumptions C18_noise_additive_sqrt_scaling.
