(* C13 — missing dissimilarities are ignored consistently or rejected, never misaligned. *)
From Coq Require Import List ZArith Reals Bool.
From RSA Require Import Prelude Vec VecR NanModel NanProofs.
Import ListNotations.
Open Scope R_scope.

(* averaging ignores missing entries per pair and yields NaN only where no RDM has a value *)
Theorem C13_mean_nan_iff_no_value : forall (xs : list (option R)) ws, length xs = length ws ->
  (wmean_entry ROps xs ws = None <-> forall x, In x xs -> x = None).
Proof. exact wmean_none_iff. Qed.
Print Assumptions C13_mean_nan_iff_no_value.

(* it honours the weights: sum over the RDMs that have a value of w*x, divided by the sum of their weights *)
Theorem C13_mean_formula : forall (xs : list (option R)) ws,
  wmean_entry ROps xs ws =
  match present xs ws with
  | [] => None
  | pr => Some (sum ROps (map (fun p => fst p * snd p) pr) / sum ROps (map snd pr))
  end.
Proof. exact wmean_formula. Qed.
Print Assumptions C13_mean_formula.

(* hence, for positive weights, a genuine average: between the smallest and largest present value *)
Theorem C13_mean_is_average : forall (xs : list (option R)) ws lo hi m,
  (forall v, In (Some v) xs -> lo <= v <= hi) -> (forall w, In w ws -> 0 < w) ->
  wmean_entry ROps xs ws = Some m -> lo <= m <= hi.
Proof. exact wmean_is_average. Qed.
Print Assumptions C13_mean_is_average.

(* RDMs lacking exactly the same entries are compared on the entry-deleted vectors with the entries still
   aligned: the k-th retained values of both vectors come from one original pair of conditions *)
Theorem C13_common_mask_never_misaligned : forall (X : Type) (v w : list (option X)),
  nan_mask v = nan_mask w -> combine (strip_nan v) (strip_nan w) = both_present v w.
Proof. exact @common_mask_aligned. Qed.
Print Assumptions C13_common_mask_never_misaligned.
