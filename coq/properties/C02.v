(* C02 — cross-validated distances are the mean of between-fold products only. *)
From Coq Require Import List ZArith Reals Bool.
From RSA Require Import Prelude Vec VecR ListLib CalcModel CalcProofs CvModel CvProofs CvMeansProofs.
Import ListNotations.
Open Scope R_scope.

(* the kernel expression K_aa + K_bb - K_ab - K_ba of the code is (tr_a - tr_b) N (te_a - te_b)' *)
Theorem C02_kernel_is_difference_form : forall N tr_a tr_b te_a te_b,
  length tr_a = length tr_b -> length te_a = length te_b ->
  cross_kernel ROps N tr_a tr_b te_a te_b = bilin ROps N (vsub ROps tr_a tr_b) (vsub ROps te_a te_b).
Proof. exact cross_kernel_eq. Qed.
Print Assumptions C02_kernel_is_difference_form.

(* leave-one-fold-out loop = mean over ordered pairs (m,n), m<>n, of d_m N d_n' — for every number
   of folds M>=2, any precision N (symmetry not needed), any fold-wise differences d *)
Theorem C02_crossnobis_pair_mean : forall N p fs (d : Z -> list R),
  NoDup fs -> (2 <= length fs)%nat -> (forall f, length (d f) = p) ->
  let M := INR (length fs) in
  sum ROps (map (fun f => bilin ROps N (vscale ROps (/ (M - 1)) (vsub ROps (vsum ROps p (map d fs)) (d f))) (d f)) fs) / M
  = sum ROps (map (fun n => sum ROps (map (fun m => bilin ROps N (d m) (d n))
                                   (filter (fun m => negb (Z.eqb m n)) fs))) fs) / (M * (M - 1)).
Proof. exact crossnobis_pair. Qed.
Print Assumptions C02_crossnobis_pair_mean.

(* poisson_cv: rate differences u against log-rate differences v *)
Theorem C02_poisson_cv_pair_mean : forall p fs (u v : Z -> list R),
  NoDup fs -> (2 <= length fs)%nat -> (forall f, length (u f) = p) ->
  let M := INR (length fs) in
  sum ROps (map (fun f => dot ROps (vscale ROps (/ (M - 1)) (vsub ROps (vsum ROps p (map u fs)) (u f))) (v f)) fs) / M
  = sum ROps (map (fun n => sum ROps (map (fun m => dot ROps (u m) (v n))
                                   (filter (fun m => negb (Z.eqb m n)) fs))) fs) / (M * (M - 1)).
Proof. exact poisson_cv_pair. Qed.
Print Assumptions C02_poisson_cv_pair_mean.

(* within-fold products never contribute, every fold contributes: the right-hand sides above range
   over exactly the ordered pairs m<>n of the (distinct) folds; this lemma is what removes the diagonal *)
Theorem C02_diagonal_removed : forall (g : Z -> R) f l, NoDup l -> In f l ->
  sum ROps (map g l) = g f + sum ROps (map g (filter (fun m => negb (Z.eqb m f)) l)).
Proof. exact rsum_filter_neq. Qed.
Print Assumptions C02_diagonal_removed.

(* from rows to fold-wise means: when condition c is observed r > 0 times in each of the other folds, the training mean the code
   computes (mean over all rows of the other folds) is the mean of the other folds' condition means -- every other fold
   contributes with equal weight, the left-out fold not at all *)
Theorem C02_training_mean_is_mean_of_fold_means : forall (p r : nat) (conds folds : list Z) (rows : list (list R)) (c f : Z),
  length conds = length rows -> length folds = length rows -> Forall (fun x => length x = p) rows ->
  (0 < r)%nat ->
  let others := filter (fun f' => negb (Z.eqb f' f)) (sort_uniq folds) in
  others <> [] ->
  (forall f', In f' others ->
     length (rows_where (fun c' f'' => Z.eqb c' c && Z.eqb f'' f') conds folds rows) = r) ->
  train_mean ROps p conds folds rows c f
  = vmean ROps p (map (fun f' => test_mean ROps p conds folds rows c f') others).
Proof. exact train_mean_is_mean_of_fold_means. Qed.
Print Assumptions C02_training_mean_is_mean_of_fold_means.

Theorem C02_mean_of_equal_groups : forall (p r : nat) (gs : list (list (list R))),
  (0 < r)%nat -> gs <> [] ->
  Forall (fun g => length g = r /\ Forall (fun x => length x = p) g) gs ->
  vmean ROps p (concat gs) = vmean ROps p (map (vmean ROps p) gs).
Proof. exact mean_of_equal_groups. Qed.
Print Assumptions C02_mean_of_equal_groups.

(* conditions are labelled by the sorted distinct values of the condition descriptor *)
Theorem C02_labels : forall lab,
  Sorted.StronglySorted Z.lt (sort_uniq lab) /\ (forall x, In x (sort_uniq lab) <-> In x lab).
Proof. exact labels_sorted_distinct. Qed.
Print Assumptions C02_labels.
