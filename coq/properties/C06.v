(* C06 — reported uncertainties and p-values are coherent with the evaluations. *)
From Coq Require Import List ZArith Reals Bool.
From RSA Require Import Prelude Vec VecR CompareModel InferModel InferProofs EvalModel EvalProofs.
Import ListNotations.
Open Scope R_scope.

(* p-values of the t-tests, for ANY symmetric distribution function in place of Student's t:
   range, symmetry of the pairwise matrix, unit diagonal, monotonicity in the effect at equal variance *)
Theorem C06_two_sided_p_in_unit_interval : forall cdf : R -> R,
  (forall x y, x <= y -> cdf x <= cdf y) -> (forall x, 0 <= cdf x <= 1) -> (forall x, cdf (- x) = 1 - cdf x) ->
  forall t, 0 <= p_two cdf t <= 1.
Proof. exact p_two_range. Qed.
Print Assumptions C06_two_sided_p_in_unit_interval.

Theorem C06_one_sided_p_in_unit_interval : forall cdf : R -> R,
  (forall x, 0 <= cdf x <= 1) -> forall t, 0 <= p_one cdf t <= 1.
Proof. exact p_one_range. Qed.
Print Assumptions C06_one_sided_p_in_unit_interval.

Theorem C06_pairwise_p_symmetric : forall cdf : R -> R, forall mi mj v,
  p_two cdf (tstat ROps (mi - mj) v) = p_two cdf (tstat ROps (mj - mi) v).
Proof. exact pairwise_p_symmetric. Qed.
Print Assumptions C06_pairwise_p_symmetric.

Theorem C06_pairwise_p_unit_diagonal : forall cdf : R -> R, (forall x, cdf (- x) = 1 - cdf x) ->
  forall m v, p_two cdf (tstat ROps (m - m) v) = 1.
Proof. exact pairwise_p_diagonal. Qed.
Print Assumptions C06_pairwise_p_unit_diagonal.

Theorem C06_larger_effect_never_larger_p_two_sided : forall cdf : R -> R, (forall x y, x <= y -> cdf x <= cdf y) ->
  forall e1 e2 v, Rabs e1 <= Rabs e2 -> p_two cdf (tstat ROps e2 v) <= p_two cdf (tstat ROps e1 v).
Proof. exact two_sided_p_monotone. Qed.
Print Assumptions C06_larger_effect_never_larger_p_two_sided.

Theorem C06_larger_effect_never_larger_p_one_sided : forall cdf : R -> R, (forall x y, x <= y -> cdf x <= cdf y) ->
  forall e1 e2 v, e1 <= e2 -> p_one cdf (tstat ROps e2 v) <= p_one cdf (tstat ROps e1 v).
Proof. exact one_sided_p_monotone. Qed.
Print Assumptions C06_larger_effect_never_larger_p_one_sided.

(* variances: the pairwise-difference variance is var_i + var_j - 2 cov_ij of the stored covariance *)
Theorem C06_difference_variance_is_contrast : forall M i j, entry ROps M i j = entry ROps M j i ->
  contrast_var ROps M (i, j) = entry ROps M i i + entry ROps M j j - 2 * entry ROps M i j.
Proof. exact contrast_var_symmetric_cov. Qed.
Print Assumptions C06_difference_variance_is_contrast.

(* fixed evaluation: with the n/(n-1) factor the model variance is the squared classical standard error s^2/n and the
   difference variance is that of the paired differences, so the t statistics are the classical one-sample / paired ones *)
Theorem C06_fixed_model_variance_is_classical : forall x, (2 <= length x)%nat ->
  bessel ROps (length x) * (cov0 x x / INR (length x)) = var1 x / INR (length x).
Proof. exact fixed_model_var_is_sem_squared. Qed.
Print Assumptions C06_fixed_model_variance_is_classical.

Theorem C06_fixed_difference_variance_is_paired : forall x y, length x = length y -> (2 <= length x)%nat ->
  let n := INR (length x) in
  bessel ROps (length x) * ((cov0 x x / n + cov0 y y / n) - 2 * (cov0 x y / n)) = var1 (vsub ROps x y) / n.
Proof. exact fixed_diff_var_is_paired. Qed.
Print Assumptions C06_fixed_difference_variance_is_paired.

(* dual bootstrap: never above the two-factor variance, never below the corrected single-factor variances that are below it *)
Theorem C06_dual_bootstrap_upper : forall nr np v0 v1 v2, dual ROps nr np v0 v1 v2 <= v0.
Proof. exact dual_never_above_two_factor. Qed.
Print Assumptions C06_dual_bootstrap_upper.

Theorem C06_dual_bootstrap_lower : forall r p v0 v1 v2,
  bessel ROps r * v1 <= v0 -> bessel ROps p * v2 <= v0 ->
  bessel ROps r * v1 <= dual ROps (Some r) (Some p) v0 v1 v2 /\ bessel ROps p * v2 <= dual ROps (Some r) (Some p) v0 v1 v2.
Proof. exact dual_not_below_corrected_single_factor. Qed.
Print Assumptions C06_dual_bootstrap_lower.

Theorem C06_dual_bootstrap_lower_uncorrected : forall v0 v1 v2, v1 <= v0 -> v2 <= v0 ->
  v1 <= dual ROps None None v0 v1 v2 /\ v2 <= dual ROps None None v0 v1 v2.
Proof. exact dual_uncorrected_bounds. Qed.
Print Assumptions C06_dual_bootstrap_lower_uncorrected.

(* standard errors are non-negative *)
Theorem C06_sem_nonnegative : forall mv, Forall (fun s => 0 <= s) (sem ROps mv).
Proof. exact sem_nonneg. Qed.
Print Assumptions C06_sem_nonnegative.

(* re-ordering the models re-orders model and difference variances *)
Theorem C06_variances_equivariant : forall sigma n M i j, (i < n)%nat -> (j < n)%nat ->
  contrast_var ROps (perm_matrix sigma n M) (i, j) = contrast_var ROps M (sigma i, sigma j).
Proof. exact contrast_var_equivariant. Qed.
Print Assumptions C06_variances_equivariant.

(* bootstrap p-values lie in (0,1] *)
Theorem C06_bootstrap_count_p_range : forall d : list (option R), d <> [] -> 0 < boot_count_p ROps d <= 1.
Proof. exact boot_count_p_range. Qed.
Print Assumptions C06_bootstrap_count_p_range.

Theorem C06_bootstrap_pair_p_range : forall a b : list (option R),
  let n := length a in let d := odiff ROps a b in
  (2 <= n)%nat -> (countb (fun x => neqb ROps x (n0 ROps)) d < n)%nat ->
  (countb (fun x => nltb ROps x (n0 ROps)) d + countb (fun x => neqb ROps x (n0 ROps)) d <= n)%nat ->
  / INR n <= boot_pair ROps a b <= 1.
Proof. exact boot_pair_range. Qed.
Print Assumptions C06_bootstrap_pair_p_range.

(* model means are NaN-aware: a missing (NaN) evaluation does not enter the average; with nothing missing it is the plain mean;
   with everything missing it is missing *)
Theorem C06_nanmean_ignores_missing : forall a b : list (option R), nanmean ROps (a ++ None :: b) = nanmean ROps (a ++ b).
Proof. exact nanmean_ignores_missing. Qed.
Print Assumptions C06_nanmean_ignores_missing.

Theorem C06_nanmean_all_present : forall xs : list R, xs <> [] -> nanmean ROps (map Some xs) = Some (mean ROps xs).
Proof. exact nanmean_all_present. Qed.
Print Assumptions C06_nanmean_all_present.

Theorem C06_nanmean_nothing_present : forall n, nanmean ROps (repeat None n) = None.
Proof. exact nanmean_nothing_present. Qed.
Print Assumptions C06_nanmean_nothing_present.

(* bootstrap-type evaluations: the stored covariance is the sample covariance across resamples (C04); the pairwise-difference
   and model-versus-ceiling variances read off it are the sample variances of the per-resample differences, hence >= 0, and the
   n/(n-1) factor never shrinks them *)
Theorem C06_reported_difference_variance : forall rows i j,
  (i < length rows)%nat -> (j < length rows)%nat ->
  length (nth i rows []) = length (nth j rows []) -> nth i rows [] <> [] ->
  contrast_var ROps (cov_matrix ROps rows) (i, j) =
  cov1 ROps (vsub ROps (nth i rows []) (nth j rows [])) (vsub ROps (nth i rows []) (nth j rows [])).
Proof. exact reported_difference_variance. Qed.
Print Assumptions C06_reported_difference_variance.

Theorem C06_reported_difference_variance_nonneg : forall rows i j,
  (i < length rows)%nat -> (j < length rows)%nat ->
  length (nth i rows []) = length (nth j rows []) -> (2 <= length (nth i rows []))%nat ->
  0 <= contrast_var ROps (cov_matrix ROps rows) (i, j).
Proof. exact reported_difference_variance_nonneg. Qed.
Print Assumptions C06_reported_difference_variance_nonneg.

Theorem C06_reported_noise_ceiling_variance : forall rows i k,
  (i < length rows)%nat -> (k < length rows)%nat ->
  length (nth i rows []) = length (nth k rows []) -> nth i rows [] <> [] ->
  nc_var ROps (cov_matrix ROps rows) i k =
  cov1 ROps (vsub ROps (nth i rows []) (nth k rows [])) (vsub ROps (nth i rows []) (nth k rows [])).
Proof. exact reported_noise_ceiling_variance. Qed.
Print Assumptions C06_reported_noise_ceiling_variance.

Theorem C06_bessel_at_least_one : forall n, (2 <= n)%nat -> 1 <= bessel ROps n.
Proof. exact bessel_at_least_one. Qed.
Print Assumptions C06_bessel_at_least_one.
