(* C11 — dataset operations keep every observation attached to its own descriptors. *)
From Coq Require Import List ZArith Bool Arith Permutation Sorted.
From RSA Require Import ListLib RdmModel DataModel DataProofs.
Import ListNotations.

(* Provenance invariant [DInv dflt src src_obs src_chans src_times d]: every measurement of d is the source
   value of (its observation id, its channel id, its time id) and every retained row / column / time
   slice carries a descriptor tuple that occurs in the source. *)
Theorem C11_step_preserves_provenance :
  forall (A : Type) (dflt : A) (src : Z -> Z -> Z -> A) (so sc st : list (list Z)) (d : ds A) (o : dop A),
  DInv dflt src so sc st d -> dop_ok dflt src so sc st o -> DInv dflt src so sc st (dstep A dflt d o).
Proof. exact @dstep_inv. Qed.
Print Assumptions C11_step_preserves_provenance.

(* for every finite sequence of split / subset / sort_by / merge / odd-even / copy operations *)
Theorem C11_all_sequences :
  forall (A : Type) (dflt : A) (src : Z -> Z -> Z -> A) (so sc st : list (list Z)) (ops : list (dop A)) (d : ds A),
  DInv dflt src so sc st d -> Forall (dop_ok dflt src so sc st) ops ->
  DInv dflt src so sc st (fold_left (dstep A dflt) ops d).
Proof. exact @drun_inv. Qed.
Print Assumptions C11_all_sequences.

(* subsets contain exactly the matching items in original order *)
Theorem C11_subset_is_filter : forall (A : Type) (dflt : A) col vs (d : ds A),
  obs (dstep A dflt d (DSubsetObs col vs)) = filter (fun t => memZ (colv col t) vs) (obs d).
Proof. exact @subset_obs_is_filter. Qed.
Print Assumptions C11_subset_is_filter.

(* splits partition what they split: the parts are the label classes in first-appearance order ... *)
Theorem C11_split_part_is_class : forall (A : Type) (d : ds A) col k,
  obs (sel_obs A (part_positions col (obs d) k) d)
  = filter (fun t => Z.eqb (colv col t) (nth k (uniq_first (keys col (obs d))) 0%Z)) (obs d).
Proof. exact @split_part_is_class. Qed.
Print Assumptions C11_split_part_is_class.

Theorem C11_split_partitions : forall (A : Type) (d : ds A) col,
  Permutation (concat (map (fun p => obs p) (split_parts_obs A col d))) (obs d).
Proof. exact @split_obs_partition. Qed.
Print Assumptions C11_split_partitions.

(* ... and merging the parts of a split returns the original rows as a multiset *)
Theorem C11_merge_of_split : forall (A : Type) (d : ds A) col p rest,
  split_parts_obs A col d = p :: rest -> Permutation (obs (merge_all A p rest)) (obs d).
Proof. exact @merge_of_split_is_permutation. Qed.
Print Assumptions C11_merge_of_split.

(* sorting is a stable permutation *)
Theorem C11_sort_stable_permutation : forall (A : Type) (dflt : A) col (d : ds A),
  let d' := dstep A dflt d (DSortObs col) in
  Permutation (obs d) (obs d') /\
  Sorted (fun a b => (colv col a <= colv col b)%Z) (obs d') /\
  forall v, filter (fun t => Z.eqb (colv col t) v) (obs d') = filter (fun t => Z.eqb (colv col t) v) (obs d).
Proof. exact @sort_obs_stable_permutation. Qed.
Print Assumptions C11_sort_stable_permutation.
