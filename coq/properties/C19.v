(* C19 — searchlights hold exactly the voxels in radius; RDMs match direct computation. *)
From Coq Require Import List ZArith Bool Arith.
From RSA Require Import SearchModel SearchProofs.
Import ListNotations.
Open Scope Z_scope.

(* a searchlight (as coded: per-axis prefilter, then the distance test) consists of exactly the in-volume voxels
   at Euclidean distance strictly below the radius p/q, for every volume, centre and positive rational radius *)
Theorem C19_neighbors_exact : forall X Y Z' p q c v, 0 < p -> 0 < q ->
  In v (neighbors X Y Z' p q c) <-> In v (sphere X Y Z' p q c).
Proof. exact neighbors_exact. Qed.
Print Assumptions C19_neighbors_exact.

Theorem C19_volume_membership : forall X Y Z' v,
  In v (volume X Y Z') <-> 0 <= vx v < X /\ 0 <= vy v < Y /\ 0 <= vz v < Z'.
Proof. exact in_volume. Qed.
Print Assumptions C19_volume_membership.

(* accepted centres are exactly the mask voxels passing the threshold-fraction test *)
Theorem C19_centers_exact : forall mask X Y Z' p q tn td c,
  In c (centers mask X Y Z' p q tn td) <->
  In c (volume X Y Z') /\ in_mask mask Y Z' c = true /\ good_center mask X Y Z' p q tn td c = true.
Proof. exact centers_exact. Qed.
Print Assumptions C19_centers_exact.

(* linear indices are consistent: a bijection between in-volume voxels and [0, X*Y*Z) *)
Theorem C19_linear_index_roundtrip : forall Y Z' v,
  0 <= vx v -> 0 <= vy v < Y -> 0 <= vz v < Z' -> unravel Y Z' (ravel Y Z' v) = v.
Proof. exact unravel_ravel. Qed.
Print Assumptions C19_linear_index_roundtrip.

Theorem C19_linear_index_range : forall X Y Z' v,
  0 <= vx v < X -> 0 <= vy v < Y -> 0 <= vz v < Z' -> 0 <= ravel Y Z' v < X * Y * Z'.
Proof. exact ravel_range. Qed.
Print Assumptions C19_linear_index_range.

(* above the chunking limit the chunks are consecutive and cover every centre exactly once, so RDM i belongs
   to centre i with or without chunking *)
Theorem C19_chunks_partition : forall (b : nat -> nat) m,
  b 0%nat = 0%nat -> (forall k, (b k <= b (S k))%nat) -> concat (chunks_of b m) = seq 0 (b m).
Proof. exact chunks_of_partition. Qed.
Print Assumptions C19_chunks_partition.

Theorem C19_chunks_partition_exact_boundaries : forall n : nat, concat (chunks n) = seq 0 n.
Proof. exact chunks_partition. Qed.
Print Assumptions C19_chunks_partition_exact_boundaries.
