(* C12 — value-returning operations neither modify nor alias their inputs. *)
From Coq Require Import List ZArith Bool.
From RSA Require Import HeapModel HeapProofs.
Import ListNotations.

(* frame property: an in-place operation (array write, re-binding of descriptor keys, re-binding of attributes) on one
   object leaves the labelled content of another object unchanged unless it writes a container the other object reaches *)
Theorem C12_frame : forall h target m other,
  well_formed h other = true -> fresh_for h m = true -> may_interfere h target m other = false ->
  content (apply_mutation h target m) other = content h other.
Proof. exact frame. Qed.
Print Assumptions C12_frame.

(* the documented in-place operations only write containers of their own object *)
Theorem C12_operations_write_their_own_containers : forall h o m l, In l (writes o m) -> In l (reach h o).
Proof. exact writes_within_own_object. Qed.
Print Assumptions C12_operations_write_their_own_containers.

(* hence objects that share no container stay independent under EVERY such operation, on either side *)
Theorem C12_independent_objects_stay_independent : forall h target other m,
  well_formed h other = true -> fresh_for h m = true -> shares h target other = [] ->
  content (apply_mutation h target m) other = content h other.
Proof. exact independent_objects_stay_independent. Qed.
Print Assumptions C12_independent_objects_stay_independent.

(* operations that only re-bind attributes of their object (dataset sort_by, and RDMs.reorder / append after the repair of the
   dictionary sharing) never interfere, whatever is shared *)
Theorem C12_attribute_rebinding_never_interferes : forall h target other,
  may_interfere h target MRebindAttributes other = false.
Proof. intros h target other. reflexivity. Qed.
Print Assumptions C12_attribute_rebinding_never_interferes.

(* producers that build their result from newly allocated containers only (copy, deep copies, computed RDMs) return objects
   that share nothing with what existed before, so by the theorem above they stay independent under every operation *)
Theorem C12_fresh_object_shares_nothing : forall h h' (fresh old : obj),
  well_formed h old = true ->
  (forall l, In l (reach h' old) -> In l (reach h old)) ->
  (forall l, In l (reach h' fresh) -> ~ In l (dom h)) ->
  shares h' fresh old = [].
Proof. exact fresh_object_shares_nothing. Qed.
Print Assumptions C12_fresh_object_shares_nothing.

Theorem C12_sharing_symmetric : forall h a b, shares h a b = [] -> shares h b a = [].
Proof. exact shares_nil_sym. Qed.
Print Assumptions C12_sharing_symmetric.

(* a deep copy into planned fresh containers (RDMs.copy, Dataset.copy, deepcopy inside calc_rdm) leaves the source readable
   exactly as before and shares nothing with it *)
Theorem C12_deep_copy_is_independent : forall h o f,
  well_formed h o = true -> (forall l, In l (all_fresh f) -> ~ In l (dom h)) ->
  let h' := fst (deep_copy h o f) in let o' := snd (deep_copy h o f) in
  content h' o = content h o /\ shares h' o' o = [].
Proof. exact deep_copy_is_independent. Qed.
Print Assumptions C12_deep_copy_is_independent.
