(* C08 — fitted model parameters maximise the training criterion within their constraints. *)
From Coq Require Import List ZArith Reals Bool.
From RSA Require Import Prelude Vec VecR LinAlg CompareModel CompareProofs CeilModel FitModel FitProofs FormProofs.
Import ListNotations.
Open Scope R_scope.

(* [criterion p W xs ds theta] = sum over the training RDMs ds of <P,d>/sqrt<P,P>/sqrt<d,d>, P = xs' * theta, with
   <.,.> the plain inner product (W = None) or the quadratic form of the whitening matrix (W = Some V^-1);
   xs, ds are the basis / training RDM vectors after the method's centring (prep), restricted to the selected entries;
   [admissible] = the prediction has positive norm (otherwise the similarity is undefined). *)

(* regression fitter, cosine and corr: NO admissible weight vector scores higher than the returned one,
   normalised or not *)
Theorem C08_fit_regress_optimal_plain : forall p, (0 < p)%nat -> forall m basis data normalize theta phi,
  plain_method m -> Forall (fun x => length x = p) basis -> Forall (fun x => length x = p) data -> data <> [] ->
  let xs := map (prep ROps m) basis in let ds := map (prep ROps m) data in
  fit_regress ROps m None basis data normalize = Some theta ->
  admissible p None xs theta -> admissible p None xs phi ->
  criterion p None xs ds phi <= criterion p None xs ds theta.
Proof. exact regress_plain_optimal. Qed.
Print Assumptions C08_fit_regress_optimal_plain.

(* non-negative fitter, cosine and corr: the returned weights are non-negative and no admissible NON-NEGATIVE
   weight vector scores higher *)
Theorem C08_fit_regress_nn_optimal_plain : forall p, (0 < p)%nat -> forall m basis data normalize theta phi,
  plain_method m -> Forall (fun x => length x = p) basis -> Forall (fun x => length x = p) data -> data <> [] ->
  let xs := map (prep ROps m) basis in let ds := map (prep ROps m) data in
  fit_regress_nn ROps m None basis data normalize = Some theta ->
  Forall (fun t => 0 <= t) phi ->
  admissible p None xs theta -> admissible p None xs phi ->
  Forall (fun t => 0 <= t) theta /\ criterion p None xs ds phi <= criterion p None xs ds theta.
Proof. exact regress_nn_plain_optimal. Qed.
Print Assumptions C08_fit_regress_nn_optimal_plain.

(* whitened variants (cosine_cov, corr_cov), for every symmetric positive-semidefinite whitening matrix *)
Theorem C08_fit_regress_optimal_whitened : forall p, (0 < p)%nat -> forall Wm,
  (forall x y, length x = p -> length y = p -> white_form Wm x y = white_form Wm y x) ->
  (forall x, length x = p -> 0 <= white_form Wm x x) ->
  forall m basis data normalize theta phi,
  white_method m -> Forall (fun x => length x = p) basis -> Forall (fun x => length x = p) data -> data <> [] ->
  let xs := map (prep ROps m) basis in let ds := map (prep ROps m) data in
  fit_regress ROps m (Some Wm) basis data normalize = Some theta ->
  admissible p (Some Wm) xs theta -> admissible p (Some Wm) xs phi ->
  criterion p (Some Wm) xs ds phi <= criterion p (Some Wm) xs ds theta.
Proof. exact regress_white_optimal. Qed.
Print Assumptions C08_fit_regress_optimal_whitened.

Theorem C08_fit_regress_nn_optimal_whitened : forall p, (0 < p)%nat -> forall Wm,
  (forall x y, length x = p -> length y = p -> white_form Wm x y = white_form Wm y x) ->
  (forall x, length x = p -> 0 <= white_form Wm x x) ->
  forall m basis data normalize theta phi,
  white_method m -> Forall (fun x => length x = p) basis -> Forall (fun x => length x = p) data -> data <> [] ->
  let xs := map (prep ROps m) basis in let ds := map (prep ROps m) data in
  fit_regress_nn ROps m (Some Wm) basis data normalize = Some theta ->
  Forall (fun t => 0 <= t) phi ->
  admissible p (Some Wm) xs theta -> admissible p (Some Wm) xs phi ->
  Forall (fun t => 0 <= t) theta /\ criterion p (Some Wm) xs ds phi <= criterion p (Some Wm) xs ds theta.
Proof. exact regress_nn_white_optimal. Qed.
Print Assumptions C08_fit_regress_nn_optimal_whitened.

(* interpolation: on a segment the fitted mixing weight lies in [0,1] and no other convex mixture of the two RDMs
   scores higher (the best segment is then chosen by [argmax_first], see C08_select below) *)
Theorem C08_interpolation_segment_optimal_plain : forall p, (0 < p)%nat -> forall m a b data w u,
  plain_method m -> length a = p -> length b = p -> Forall (fun x => length x = p) data -> data <> [] ->
  let xs := [prep ROps m a; prep ROps m b] in let ds := map (prep ROps m) data in
  segment_weight ROps m None a b data = Some w -> 0 <= u <= 1 ->
  admissible p None xs [w; 1 - w] -> admissible p None xs [u; 1 - u] ->
  0 <= w <= 1 /\ criterion p None xs ds [u; 1 - u] <= criterion p None xs ds [w; 1 - w].
Proof. exact interp_segment_plain_optimal. Qed.
Print Assumptions C08_interpolation_segment_optimal_plain.

Theorem C08_interpolation_segment_optimal_whitened : forall p, (0 < p)%nat -> forall Wm,
  (forall x y, length x = p -> length y = p -> white_form Wm x y = white_form Wm y x) ->
  (forall x, length x = p -> 0 <= white_form Wm x x) ->
  forall m a b data w u,
  white_method m -> length a = p -> length b = p -> Forall (fun x => length x = p) data -> data <> [] ->
  let xs := [prep ROps m a; prep ROps m b] in let ds := map (prep ROps m) data in
  segment_weight ROps m (Some Wm) a b data = Some w -> 0 <= u <= 1 ->
  admissible p (Some Wm) xs [w; 1 - w] -> admissible p (Some Wm) xs [u; 1 - u] ->
  0 <= w <= 1 /\ criterion p (Some Wm) xs ds [u; 1 - u] <= criterion p (Some Wm) xs ds [w; 1 - w].
Proof. exact interp_segment_white_optimal. Qed.
Print Assumptions C08_interpolation_segment_optimal_whitened.

(* selection: the returned index is a valid candidate, no candidate scores higher, and it is the first such *)
Theorem C08_select_is_best : forall m W (basis data : list (list R)), basis <> [] ->
  let i := fit_select ROps m W basis data in
  (i < length basis)%nat /\
  (forall j, (j < length basis)%nat ->
     score ROps m W data (nth j basis []) <= score ROps m W data (predict_select basis i)) /\
  (forall j, (j < i)%nat -> score ROps m W data (nth j basis []) < score ROps m W data (predict_select basis i)).
Proof. exact fit_select_is_best. Qed.
Print Assumptions C08_select_is_best.

(* normalised fits have unit norm *)
Theorem C08_normalised_unit_norm : forall t : list R, 0 < dot ROps t t -> dot ROps (normalise ROps t) (normalise ROps t) = 1.
Proof. exact normalised_unit_norm. Qed.
Print Assumptions C08_normalised_unit_norm.

(* predictions are linear in the weights *)
Theorem C08_prediction_linear : forall p a b theta phi (B : list (list R)), length theta = length phi ->
  Forall (fun x => length x = p) B ->
  predict_weighted ROps p B (vadd ROps (vscale ROps a theta) (vscale ROps b phi)) =
  vadd ROps (vscale ROps a (predict_weighted ROps p B theta)) (vscale ROps b (predict_weighted ROps p B phi)).
Proof. exact lincomb_linear. Qed.
Print Assumptions C08_prediction_linear.

(* the solvers: what [solve] returns satisfies the normal equations, what [nnls] returns is a Karush-Kuhn-Tucker point *)
Theorem C08_solve_sound : forall G b t, solve ROps G b = Some t -> matvec ROps G t = b.
Proof. exact solve_sound. Qed.
Print Assumptions C08_solve_sound.

Theorem C08_nnls_kkt : forall G b t, nnls ROps G b = Some t ->
  Forall (fun x => 0 <= x) t /\ Forall (fun g => g <= 0) (gradient ROps G b t) /\ dot ROps t (gradient ROps G b t) = 0.
Proof. exact nnls_kkt. Qed.
Print Assumptions C08_nnls_kkt.

(* the symmetry hypothesis of the whitened theorems holds for every entrywise symmetric square matrix (the correspondence
   checks this decidable property, and positive pivots of V, for every whitening matrix it uses) *)
Theorem C08_symmetric_matrix_symmetric_form : forall p W,
  length W = p -> Forall (fun r => length r = p) W ->
  (forall i j, (i < p)%nat -> (j < p)%nat -> wentry W i j = wentry W j i) ->
  forall x y, length x = p -> length y = p -> white_form W x y = white_form W y x.
Proof. exact symmetric_matrix_symmetric_form. Qed.
Print Assumptions C08_symmetric_matrix_symmetric_form.
