(* C20 — importers recover exactly the structure encoded in external names and files. *)
From Coq Require Import List String Reals Bool.
From RSA Require Import Prelude Vec VecR ImportModel ImportProofs TransformModel FilterModel FilterProofs.
Import ListNotations.

(* parsing a BIDS-style relative path built from ANY valid combination of derivative, subject, session, modality,
   task, run, space, description, suffix and extension returns exactly those entities (all 2^6 presence patterns
   and all separator-free values at once) ... *)
Theorem C20_bids_roundtrip : forall r : bids, valid r = true -> deconstruct (format_bids r) = Some r.
Proof. exact deconstruct_format. Qed.
Print Assumptions C20_bids_roundtrip.

(* ... and rebuilding the path from the parsed entities returns the original path *)
Theorem C20_bids_path_roundtrip : forall r : bids, valid r = true ->
  option_map format_bids (deconstruct (format_bids r)) = Some (format_bids r).
Proof. exact format_deconstruct_format. Qed.
Print Assumptions C20_bids_path_roundtrip.

(* sibling, events and metadata look-ups change only the entities they are asked to change *)
Theorem C20_events_changes_only : forall r,
  let e := events_for r in
  b_sub e = b_sub r /\ b_ses e = b_ses r /\ b_modality e = b_modality r /\ b_task e = b_task r /\ b_run e = b_run r /\
  b_derivative e = None /\ b_space e = None /\ b_desc e = None /\ b_suffix e = "events"%string /\ b_ext e = "tsv"%string.
Proof. exact events_changes_only. Qed.
Print Assumptions C20_events_changes_only.

Theorem C20_table_sibling_changes_only : forall r desc suffix,
  let e := table_sibling r desc suffix in
  b_derivative e = b_derivative r /\ b_sub e = b_sub r /\ b_ses e = b_ses r /\ b_modality e = b_modality r /\
  b_task e = b_task r /\ b_run e = b_run r /\
  b_space e = None /\ b_desc e = Some desc /\ b_suffix e = suffix /\ b_ext e = "tsv"%string.
Proof. exact table_sibling_changes_only. Qed.
Print Assumptions C20_table_sibling_changes_only.

Theorem C20_mri_sibling_changes_only : forall r desc suffix,
  let e := mri_sibling r desc suffix in
  b_derivative e = b_derivative r /\ b_sub e = b_sub r /\ b_ses e = b_ses r /\ b_modality e = b_modality r /\
  b_task e = b_task r /\ b_run e = b_run r /\ b_space e = b_space r /\ b_ext e = b_ext r /\
  b_desc e = Some desc /\ b_suffix e = suffix.
Proof. exact mri_sibling_changes_only. Qed.
Print Assumptions C20_mri_sibling_changes_only.

Theorem C20_meta_changes_only : forall r,
  let e := with_ext r "json" in
  b_derivative e = b_derivative r /\ b_sub e = b_sub r /\ b_ses e = b_ses r /\ b_modality e = b_modality r /\
  b_task e = b_task r /\ b_run e = b_run r /\ b_space e = b_space r /\ b_desc e = b_desc r /\ b_suffix e = b_suffix r /\
  b_ext e = "json"%string.
Proof. exact meta_changes_only. Qed.
Print Assumptions C20_meta_changes_only.

(* Meadows file names: the three shapes decode to their participant / task / experiment fields *)
Theorem C20_meadows_single_participant_single_task : forall pets exp ver participant idx structure ext,
  forallb seg_ok [exp; vv ver; structure; participant; idx] = true -> nochar dot ext = true ->
  is_digit_string idx = true ->
  meadows_segments pets (join us ["Meadows"%string; exp; "v"%string; vv ver; participant; idx; structure] ++ String dot ext)
  = mkInfo exp structure ext 0 participant idx.
Proof. exact meadows_single_single. Qed.
Print Assumptions C20_meadows_single_participant_single_task.

Theorem C20_meadows_single_participant : forall pets exp ver participant structure ext,
  forallb seg_ok [exp; vv ver; structure; participant] = true -> nochar dot ext = true ->
  is_digit_string participant = false -> is_petname pets participant = true ->
  meadows_segments pets (join us ["Meadows"%string; exp; "v"%string; vv ver; participant; structure] ++ String dot ext)
  = mkInfo exp structure ext 1 participant ""%string.
Proof. exact meadows_single_participant. Qed.
Print Assumptions C20_meadows_single_participant.

Theorem C20_meadows_multi_participant : forall pets exp ver task structure ext,
  forallb seg_ok [exp; vv ver; structure; task] = true -> nochar dot ext = true ->
  is_digit_string task = false -> is_petname pets task = false ->
  meadows_segments pets (join us ["Meadows"%string; exp; "v"%string; vv ver; task; structure] ++ String dot ext)
  = mkInfo exp structure ext 2 ""%string task.
Proof. exact meadows_multi_participant. Qed.
Print Assumptions C20_meadows_multi_participant.

(* design matrices: every non-constant column is centred and range-normalised *)
Theorem C20_design_column_centred : forall col : list R, col <> [] -> (list_min ROps col < list_max ROps col)%R ->
  sum ROps (normalize_column ROps col) = 0%R.
Proof. exact normalized_mean_zero. Qed.
Print Assumptions C20_design_column_centred.

Theorem C20_design_column_range_one : forall col : list R, col <> [] -> (list_min ROps col < list_max ROps col)%R ->
  exists lo hi, In lo (normalize_column ROps col) /\ In hi (normalize_column ROps col) /\ (hi - lo = 1)%R /\
                forall v, In v (normalize_column ROps col) -> (lo <= v <= hi)%R.
Proof. exact normalized_range_one. Qed.
Print Assumptions C20_design_column_range_one.

(* SPM high-pass filtering removes from a run's data its component in that run's (orthonormal) filter regressors *)
Theorem C20_filter_removes_component : forall T (qs : list (list R)) (y q : list R),
  NoDup qs -> Forall (fun v => List.length v = T) qs -> List.length y = T ->
  (forall a, In a qs -> Vec.dot ROps a a = 1%R) -> (forall a b, In a qs -> In b qs -> a <> b -> Vec.dot ROps a b = 0%R) ->
  In q qs -> Vec.dot ROps q (proj_out ROps T qs y) = 0%R.
Proof. exact filter_removes_component. Qed.
Print Assumptions C20_filter_removes_component.
