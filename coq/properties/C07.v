(* C07 — the upper noise ceiling is unbeatable; the lower one is leave-one-out and not above it. *)
From Coq Require Import List ZArith Reals Bool.
From RSA Require Import Prelude Vec VecR CompareModel CompareProofs CeilModel CeilProofs CeilCorrProofs.
Import ListNotations.
Open Scope R_scope.

(* the average cosine of a candidate with the data RDMs is linear in the candidate *)
Theorem C07_average_cosine_is_linear : forall p (c : list R) (xs : list (list R)),
  0 < dot ROps c c -> Forall (fun x => length x = p /\ 0 < dot ROps x x) xs ->
  sum ROps (map (cosine ROps c) xs) = dot ROps c (vsum ROps p (map unit_vec xs)) / sqrt (dot ROps c c).
Proof. exact sum_cosine_linear. Qed.
Print Assumptions C07_average_cosine_is_linear.

(* upper ceiling (cosine): NO candidate RDM scores above the pooled RDM (the sum of the norm-normalised data
   RDMs, of which the coded RMS-normalised mean is a positive multiple), and the pooled RDM attains the bound *)
Theorem C07_cosine_pool_optimal : forall p (c : list R) (xs : list (list R)),
  let P := vsum ROps p (map unit_vec xs) in
  length c = p -> 0 < dot ROps c c -> 0 < dot ROps P P -> Forall (fun x => length x = p /\ 0 < dot ROps x x) xs ->
  sum ROps (map (cosine ROps c) xs) <= sum ROps (map (cosine ROps P) xs) /\
  sum ROps (map (cosine ROps P) xs) = sqrt (dot ROps P P).
Proof. exact cosine_pool_optimal. Qed.
Print Assumptions C07_cosine_pool_optimal.

(* lower <= upper, term by term, with singleton groups: adding the left-out (normalised) RDM u to the pool w of the
   others can only increase the similarity to u *)
Theorem C07_leave_one_out_term_not_above_full_term : forall w u : list R, length w = length u ->
  0 < dot ROps w w -> 0 < dot ROps u u -> 0 < dot ROps (vadd ROps w u) (vadd ROps w u) ->
  cosine ROps w u <= cosine ROps (vadd ROps w u) u.
Proof. exact loo_term_le_full_term. Qed.
Print Assumptions C07_leave_one_out_term_not_above_full_term.

(* both bounds are invariant to rescaling individual data RDMs (cosine): the pooled RDM does not change *)
Theorem C07_pool_cosine_scale_invariant : forall (scales : list R) (xs : list (list R)),
  length scales = length xs -> Forall (fun a => 0 < a) scales -> Forall (fun x => x <> [] /\ 0 < rms ROps x) xs ->
  pool_cosine ROps (map2 (fun a x => vscale ROps a x) scales xs) = pool_cosine ROps xs.
Proof. exact pool_cosine_scale_invariant. Qed.
Print Assumptions C07_pool_cosine_scale_invariant.

(* rho-a: the average similarity of a candidate is linear in its centred rank vector (the remaining step, that the
   mean-rank RDM maximises it, is the rearrangement inequality and is NOT proved here) *)
Theorem C07_average_rho_a_is_linear_partial : forall (c : list R) (xs : list (list R)),
  Forall (fun x => length x = length c) xs ->
  sum ROps (map (rho_a ROps c) xs)
  = dot ROps (center ROps (ranks ROps c)) (vsum ROps (length c) (map (fun x => center ROps (ranks ROps x)) xs))
    / (INR (length c) * INR (length c) * INR (length c) - INR (length c)) * 12.
Proof. exact sum_rho_a_linear. Qed.
Print Assumptions C07_average_rho_a_is_linear_partial.

(* upper ceiling (Pearson correlation): no candidate RDM has a higher summed correlation with the data RDMs than the sum of
   their centred, norm-normalised versions (pool_rdm('corr') is a positive affine image of it), which attains sqrt<P,P> *)
Theorem C07_corr_pool_optimal : forall p (c : list R) (xs : list (list R)),
  let P := corr_pool p xs in
  (0 < p)%nat -> length c = p -> Forall (fun x => length x = p) xs ->
  0 < dot ROps (center ROps c) (center ROps c) -> 0 < dot ROps P P ->
  Forall (fun x => 0 < dot ROps (center ROps x) (center ROps x)) xs ->
  sum ROps (map (corr ROps c) xs) <= sum ROps (map (corr ROps P) xs) /\
  sum ROps (map (corr ROps P) xs) = sqrt (dot ROps P P).
Proof. exact corr_pool_optimal. Qed.
Print Assumptions C07_corr_pool_optimal.
