(* C09 — bootstrap samples are faithful with-replacement resamples of whole groups. *)
From Coq Require Import List ZArith Bool Arith Permutation Sorted.
From RSA Require Import ListLib RdmModel RdmProofs BootModel BootProofs BootCountProofs.
Import ListNotations.

(* the map from a draw in [0,G) to a descriptor group is a bijection onto the distinct groups *)
Theorem C09_draw_injective : forall keys d1 d2,
  d1 < length (groups keys) -> d2 < length (groups keys) ->
  nth d1 (groups keys) 0%Z = nth d2 (groups keys) 0%Z -> d1 = d2.
Proof. exact draw_to_group_injective. Qed.
Print Assumptions C09_draw_injective.

Theorem C09_draw_surjective : forall keys g,
  In g keys -> exists d, d < length (groups keys) /\ nth d (groups keys) 0%Z = g.
Proof. exact draw_to_group_surjective. Qed.
Print Assumptions C09_draw_surjective.

Theorem C09_drawn_are_groups : forall keys draws,
  Forall (fun d => d < length (groups keys)) draws -> Forall (fun g => In g keys) (drawn (groups keys) draws).
Proof. exact drawn_are_groups. Qed.
Print Assumptions C09_drawn_are_groups.

(* every drawn group appears with its multiplicity, with all its members and all their descriptor values *)
Theorem C09_pattern_multiplicity : forall (A : Type) (zero : A) (c : nat) (idx : list Z) (s : rdms A),
  Permutation (pats (step A zero s (OSubsamplePat (Some c) idx)))
              (concat (map (fun v => filter (fun t => Z.eqb (colv c t) v) (pats s)) idx)).
Proof. exact @pattern_sample_multiplicity. Qed.
Print Assumptions C09_pattern_multiplicity.

Theorem C09_rdm_sample_exact : forall (A : Type) (zero : A) (c : nat) (idx : list Z) (s : rdms A),
  items (step A zero s (OSubsample (Some c) idx))
  = concat (map (fun v => filter (fun it => Z.eqb (colv c (fst it)) v) (items s)) idx).
Proof. exact @rdm_sample_exact. Qed.
Print Assumptions C09_rdm_sample_exact.

(* resampling a prediction with the returned labels lists the same original conditions in the same order *)
Theorem C09_alignment : forall (A : Type) (col : option nat) (idx : list Z) (data pred : rdms A),
  pkeys A col data = pkeys A col pred ->
  sort_nat (pos_each idx (pkeys A col data)) = sort_nat (pos_each idx (pkeys A col pred)).
Proof. exact @alignment. Qed.
Print Assumptions C09_alignment.

Theorem C09_sample_in_original_order : forall (A : Type) (zero : A) (col : option nat) (idx : list Z) (s : rdms A),
  exists sel, Sorted (fun a b => (Z.of_nat a <= Z.of_nat b)%Z) sel /\
    pats (step A zero s (OSubsamplePat col idx)) = map (fun i => nth i (pats s) []) sel /\
    pidx (step A zero s (OSubsamplePat col idx)) = map (fun i => nth i (pidx s) 0%Z) sel.
Proof. exact @pattern_sample_order. Qed.
Print Assumptions C09_sample_in_original_order.

(* for EVERY outcome of the draws: each entry of the sample is the source dissimilarity of the same RDM and
   the same two original conditions; pairs of two copies of one condition are NaN and nothing else is *)
Theorem C09_sample_entries : forall (A : Type) (zero : A) (src : Z -> Z -> Z -> option A)
  (src_pats src_rdms : list (list Z)) rcol pcol rdraws pdraws (s : rdms A),
  Inv zero src src_pats src_rdms s ->
  Inv zero src src_pats src_rdms (fst (fst (boot_both A zero rcol pcol rdraws pdraws s))).
Proof. exact @boot_both_inv. Qed.
Print Assumptions C09_sample_entries.

(* "over many draws each group is selected equally often on average": summed over ALL G^L possible outcomes of L draws from
   0..G-1, every group is drawn exactly L * G^(L-1) times; with as many draws as groups that is once per outcome on average.
   (That NumPy's generator makes the outcomes equally likely is not provable here.) *)
Theorem C09_every_outcome_listed : forall G L l, In l (all_draws G L) <-> length l = L /\ Forall (fun d => d < G) l.
Proof. exact all_draws_spec. Qed.
Print Assumptions C09_every_outcome_listed.

Theorem C09_groups_drawn_equally_often : forall G L d, d < G -> total G L d = L * G ^ (L - 1).
Proof. exact total_draws. Qed.
Print Assumptions C09_groups_drawn_equally_often.

Theorem C09_average_multiplicity_one : forall G d, 0 < G -> d < G -> total G G d = length (all_draws G G).
Proof. exact average_multiplicity_one. Qed.
Print Assumptions C09_average_multiplicity_one.
