(* C15 — the unbalanced (compiled) estimator matches the balanced one and skips missing channels. *)
From Coq Require Import List ZArith QArith Reals Bool.
From RSA Require Import Prelude Vec VecR ListLib LinAlg CalcModel CalcProofs UnbalModel UnbalProofs.
Import ListNotations.

(* euclidean / mahalanobis-without-precision, no missing values, ANY repetition counts: the accumulated
   self-similarity of a condition is <mean,mean>/P, the cross-similarity <mean_a,mean_b>/P, and therefore
   self_a + self_b - 2 cross_ab is the squared distance of the condition means divided by P *)
Theorem C15_self_similarity_is_mean_norm : forall p (xs : list (list R)), (0 < p)%nat -> xs <> [] ->
  Forall (fun x => length x = p) xs ->
  total ROps (map (fun x => (dot ROps x x / 2, INR p / 2)%R) xs ++ triu_map (fun x y => (dot ROps x y, INR p)) xs)
  = Some (dot ROps (vmean ROps p xs) (vmean ROps p xs) / INR p)%R.
Proof. exact euclid_self_is_mean_norm. Qed.
Print Assumptions C15_self_similarity_is_mean_norm.

Theorem C15_cross_similarity_is_mean_dot : forall p (xs ys : list (list R)), (0 < p)%nat -> xs <> [] -> ys <> [] ->
  Forall (fun x => length x = p) xs -> Forall (fun x => length x = p) ys ->
  total ROps (concat (map (fun x => map (fun y => (dot ROps x y, INR p)) ys) xs))
  = Some (dot ROps (vmean ROps p xs) (vmean ROps p ys) / INR p)%R.
Proof. exact euclid_cross_is_mean_dot. Qed.
Print Assumptions C15_cross_similarity_is_mean_dot.

Theorem C15_unbalanced_equals_balanced : forall p (xs ys : list (list R)) sa sb c,
  length (vmean ROps p xs) = length (vmean ROps p ys) ->
  sa = (dot ROps (vmean ROps p xs) (vmean ROps p xs) / INR p)%R ->
  sb = (dot ROps (vmean ROps p ys) (vmean ROps p ys) / INR p)%R ->
  c = (dot ROps (vmean ROps p xs) (vmean ROps p ys) / INR p)%R ->
  (sa + sb - 2 * c)%R = d_euclid ROps p (vmean ROps p xs) (vmean ROps p ys).
Proof. exact euclid_unbalanced_eq_balanced. Qed.
Print Assumptions C15_unbalanced_equals_balanced.

(* a channel missing for an observation is left out of exactly the products involving that observation *)
Theorem C15_missing_channel_skipped : forall (F : Type) (x1 x2 y1 y2 : list (option F)) (a b : option F),
  length x1 = length y1 -> (a = None \/ b = None) ->
  valid_pairs (x1 ++ a :: x2) (y1 ++ b :: y2) = valid_pairs (x1 ++ x2) (y1 ++ y2).
Proof. exact @missing_channel_skipped. Qed.
Print Assumptions C15_missing_channel_skipped.

Theorem C15_kernels_use_valid_channels_only : forall (F : Type) (O : NumOps F) lg pl pw (x y x' y' : list (option F)),
  valid_pairs x y = valid_pairs x' y' ->
  k_euclid O x y = k_euclid O x' y' /\ k_poisson O lg pl pw x y = k_poisson O lg pl pw x' y'.
Proof. exact @kernels_depend_on_valid_pairs. Qed.
Print Assumptions C15_kernels_use_valid_channels_only.

(* pairs without any valid product are NaN *)
Theorem C15_no_valid_product_is_nan : forall l : list (R * R), sum ROps (map snd l) = 0%R -> total ROps l = None.
Proof. exact no_valid_product_is_nan. Qed.
Print Assumptions C15_no_valid_product_is_nan.

(* the engine's condensed index is strictly increasing in the row-major order of condition pairs (hence a
   bijection onto 0 .. n(n-1)/2 - 1) *)
Theorem C15_condensed_index_injective : forall n a b a' b', (0 <= a < b)%Z -> (b < n)%Z -> (0 <= a' < b')%Z -> (b' < n)%Z ->
  engine_index n a b = engine_index n a' b' -> a = a' /\ b = b'.
Proof. exact engine_index_injective. Qed.
Print Assumptions C15_condensed_index_injective.

Theorem C15_condensed_index_range : forall n a b, (0 <= a < b)%Z -> (b < n)%Z ->
  (0 <= 2 * engine_index n a b < n * (n - 1))%Z.
Proof. exact engine_index_range. Qed.
Print Assumptions C15_condensed_index_range.

(* the compiled engine deviates from the property in two recorded ways (known findings); witnesses on the model *)
Theorem C15_equal_weighting_refuted :
  unbalanced_rdm QOps (k_euclid QOps) true 0%Q false [0;0;1]%Z [0;1;2]%Z ex_rows = [None] /\
  unbalanced_rdm QOps (k_euclid QOps) true (1 # 2)%Q false [0;0;1]%Z [0;1;2]%Z ex_rows <> [None].
Proof. exact equal_weighting_refuted. Qed.
Print Assumptions C15_equal_weighting_refuted.

Theorem C15_correlation_nan_refuted :
  fst (k_corr QOps 3 [Some 1; Some 2; None]%Q [Some 2; Some 5; Some 1]%Q) <>
  fst (corr_valid [Some 1; Some 2; None]%Q [Some 2; Some 5; Some 1]%Q).
Proof. exact correlation_nan_refuted. Qed.
Print Assumptions C15_correlation_nan_refuted.
