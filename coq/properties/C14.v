(* C14 — noise covariance is the pooled residual covariance; precision is its inverse. *)
From Coq Require Import List ZArith Reals Permutation Bool.
From RSA Require Import Prelude Vec VecR ListLib LinAlg CalcModel NoiseModel NoiseProofs.
Import ListNotations.
Open Scope R_scope.

(* the 'full' estimate is the second-moment matrix of the residuals divided by the degrees of freedom *)
Theorem C14_full_is_residual_covariance : forall p X dof j k, (j < p)%nat -> (k < p)%nat ->
  entry ROps (cov_full ROps p X dof) j k = dot ROps (col_of ROps j X) (col_of ROps k X) / dof.
Proof.
  intros p X dof j k Hj Hk. unfold cov_full.
  rewrite entry_mdivs by (unfold ss; rewrite map_length, seq_length; exact Hj). rewrite entry_ss by assumption. reflexivity.
Qed.
Print Assumptions C14_full_is_residual_covariance.

(* symmetric *)
Theorem C14_symmetric : forall p X dof j k, (j < p)%nat -> (k < p)%nat ->
  entry ROps (cov_full ROps p X dof) j k = entry ROps (cov_full ROps p X dof) k j.
Proof. exact cov_full_symmetric. Qed.
Print Assumptions C14_symmetric.

(* positive semi-definite: x' (R'R) x is a sum of squares, for every x *)
Theorem C14_positive_semidefinite : forall p X x, 0 <= qform p (ss ROps p X) x.
Proof. exact ss_positive_semidefinite. Qed.
Print Assumptions C14_positive_semidefinite.

Theorem C14_quadratic_form_is_sum_of_squares : forall p X x,
  qform p (ss ROps p X) x = sum ROps (map (fun r => lin p r x * lin p r x) X).
Proof. exact ss_quadratic_form. Qed.
Print Assumptions C14_quadratic_form_is_sum_of_squares.

(* independent of the order of the observations *)
Theorem C14_row_order_irrelevant : forall p X X' j k, Permutation X X' -> (j < p)%nat -> (k < p)%nat ->
  entry ROps (ss ROps p X) j k = entry ROps (ss ROps p X') j k.
Proof. exact ss_row_permutation. Qed.
Print Assumptions C14_row_order_irrelevant.

(* the two shrinkage estimates are convex combinations of the covariance with their target *)
Theorem C14_shrink_diag_is_convex_combination : forall p X dof j k, (j < p)%nat -> (k < p)%nat ->
  let s := mdivs ROps (ss ROps p X) dof in let lam := diag_lambda ROps p X dof in
  entry ROps (cov_shrink_diag ROps p X dof) j k =
    lam * (if Nat.eqb j k then entry ROps s j k else 0) + (1 - lam) * entry ROps s j k.
Proof. exact cov_shrink_diag_entries. Qed.
Print Assumptions C14_shrink_diag_is_convex_combination.

Theorem C14_shrink_eye_is_convex_combination : forall p X dof j k, (j < p)%nat -> (k < p)%nat ->
  let n := ofnat ROps (length X) in let s := mdivs ROps (ss ROps p X) n in
  let '(b2, d2, m) := eye_lambda ROps p X in
  0 < d2 ->
  entry ROps (cov_eye ROps p X dof) j k =
    ((b2 / d2) * (m * kron ROps j k) + (1 - b2 / d2) * entry ROps s j k) * n / dof.
Proof. exact cov_eye_entries. Qed.
Print Assumptions C14_shrink_eye_is_convex_combination.

(* with shrinkage intensity in [0,1] *)
Theorem C14_diag_intensity_in_unit_interval : forall p X dof, 0 <= diag_lambda ROps p X dof <= 1.
Proof. exact diag_lambda_range. Qed.
Print Assumptions C14_diag_intensity_in_unit_interval.

Theorem C14_eye_intensity_in_unit_interval : forall p X,
  let '(b2, d2, m) := eye_lambda ROps p X in 0 < d2 -> 0 <= b2 -> 0 <= b2 / d2 <= 1.
Proof. exact eye_lambda_range. Qed.
Print Assumptions C14_eye_intensity_in_unit_interval.

(* hence positive semi-definite, and positive definite whenever shrinkage is active *)
Theorem C14_convex_combination_psd : forall lam m qS qI, 0 <= lam <= 1 -> 0 <= m -> 0 <= qS -> 0 <= qI ->
  0 <= lam * (m * qI) + (1 - lam) * qS.
Proof. exact convex_combination_psd. Qed.
Print Assumptions C14_convex_combination_psd.

Theorem C14_convex_combination_pd : forall lam m qS qI, 0 < lam <= 1 -> 0 < m -> 0 <= qS -> 0 < qI ->
  0 < lam * (m * qI) + (1 - lam) * qS.
Proof. exact convex_combination_pd. Qed.
Print Assumptions C14_convex_combination_pd.

(* each returned precision that passes the validator is the matrix inverse of the covariance *)
Theorem C14_validated_inverse : forall A X : list (list R),
  minv ROps A = Some X -> matmul ROps (length A) A X = identity ROps (length A).
Proof. exact minv_sound. Qed.
Print Assumptions C14_validated_inverse.

(* change of units (data in Tesla or Volt): the full covariance of c * X is c^2 times that of X, for every c *)
Theorem C14_covariance_change_of_units : forall p X dof c j k, (j < p)%nat -> (k < p)%nat ->
  entry ROps (cov_full ROps p (map (vscale ROps c) X) dof) j k = c * c * entry ROps (cov_full ROps p X dof) j k.
Proof. exact cov_full_change_of_units. Qed.
Print Assumptions C14_covariance_change_of_units.
