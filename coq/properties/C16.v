(* C16 — saving and loading returns an equal object for every type and file format. *)
From Coq Require Import List ZArith QArith Bool.
From RSA Require Import CodecModel CodecProofs.
Import ListNotations.

(* HDF5: for every value of the dictionary form (strings incl. non-ASCII, numbers incl. NaN / inf, None = an absent
   measure, arrays and matrices, homogeneous lists / tuples of any nesting depth, nested dictionaries) whose arrays hold
   numbers only or strings only, writing succeeds and reading returns exactly the same content (shape and leaves),
   provided the string encoder accepts every string and the decoder inverts it (UTF-8) *)
Theorem C16_hdf5_roundtrip : forall (bytes : Type) (enc : ustr -> option bytes) (dec : bytes -> ustr),
  (forall s, exists b, enc s = Some b /\ dec b = s) ->
  forall v n, nf_of v = Some n -> nf_ok n = true ->
  exists h, write_val bytes enc v = Some h /\ read_node bytes dec h = n.
Proof. exact hdf5_roundtrip. Qed.
Print Assumptions C16_hdf5_roundtrip.

(* the hypothesis on the encoder is needed: an encoder that rejects a string (ASCII) cannot store a list containing it *)
Theorem C16_partial_encoder_refuses : forall (bytes : Type) (enc : ustr -> option bytes) s,
  enc s = None -> write_val bytes enc (VList [VStr s]) = None.
Proof. exact partial_encoder_refuses. Qed.
Print Assumptions C16_partial_encoder_refuses.

(* saving to an existing HDF5 path is refused and leaves the file system unchanged *)
Theorem C16_save_refuses_existing : forall (content : Type) f path (c c0 : content),
  lookup path f = Some c0 -> save_hdf5 content f path c false = Refused content.
Proof. exact save_refuses_existing. Qed.
Print Assumptions C16_save_refuses_existing.

Theorem C16_save_fresh : forall (content : Type) f path (c : content),
  lookup path f = None -> save_hdf5 content f path c false = Saved content ((path, c) :: f).
Proof. exact save_fresh. Qed.
Print Assumptions C16_save_fresh.

(* with overwrite the path afterwards holds exactly the new object and no other path changes *)
Theorem C16_save_overwrite_holds_exactly_new : forall (content : Type) f path (c : content),
  exists f', save_hdf5 content f path c true = Saved content f' /\ lookup path f' = Some c /\
             forall p, ustr_eqb p path = false -> lookup p f' = lookup p f.
Proof. exact save_overwrite_holds_exactly_new. Qed.
Print Assumptions C16_save_overwrite_holds_exactly_new.

(* container kinds carry no content: a list / tuple of numbers or strings has exactly the content of the one-dimensional
   array (what HDF5 hands back, and what dict_to_list turns back into a list); a scalar that of the 0-d array *)
Theorem C16_number_list_has_array_content : forall xs : list num,
  nf_of (VList (map VNum xs)) = nf_of (VArr (ANum [length xs] xs)).
Proof. exact number_list_has_array_content. Qed.
Print Assumptions C16_number_list_has_array_content.

Theorem C16_string_list_has_array_content : forall xs : list ustr,
  nf_of (VList (map VStr xs)) = nf_of (VArr (AStr [length xs] xs)).
Proof. exact string_list_has_array_content. Qed.
Print Assumptions C16_string_list_has_array_content.

Theorem C16_scalar_has_array_content : forall x : num, nf_of (VNum x) = nf_of (VArr (ANum [] [x])).
Proof. exact scalar_has_array_content. Qed.
Print Assumptions C16_scalar_has_array_content.
