(* C04 — each stored evaluation is the direct comparison of prediction and resampled data. *)
From Coq Require Import List ZArith Reals Bool Permutation.
From RSA Require Import Prelude Vec VecR RdmModel CompareModel InferModel EvalModel EvalProofs.
Import ListNotations.

(* the prediction enters an evaluation only through the pairs of drawn conditions *)
Theorem C04_only_drawn_conditions_enter : forall (A : Type) (d : A) n sel (v v' : list A),
  (forall i j, In i sel -> In j sel -> i <> j ->
     nth (vec_index n (Nat.min i j) (Nat.max i j)) v d = nth (vec_index n (Nat.min i j) (Nat.max i j)) v' d) ->
  sub_vec d n sel v = sub_vec d n sel v'.
Proof. exact @sub_vec_depends_on_selected_only. Qed.
Print Assumptions C04_only_drawn_conditions_enter.

Theorem C04_repeated_condition_has_no_self_dissimilarity : forall (A : Type) (d : A) n sel (v : list A) k a b,
  nth_error (pair_list (length sel)) k = Some (a, b) -> nth a sel 0%nat = nth b sel 0%nat ->
  nth_error (sub_vec d n sel v) k = Some None.
Proof. exact @sub_vec_same_condition_missing. Qed.
Print Assumptions C04_repeated_condition_has_no_self_dissimilarity.

(* inside a bootstrap sample a fold holds exactly its own conditions, each with its bootstrap multiplicity *)
Theorem C04_fold_conditions_with_bootstrap_multiplicity : forall drawn fold x, NoDup fold ->
  countZ x (concat_sampling drawn fold) = if existsb (Z.eqb x) fold then countZ x drawn else 0%nat.
Proof. exact concat_sampling_restricts. Qed.
Print Assumptions C04_fold_conditions_with_bootstrap_multiplicity.

Open Scope R_scope.
(* covariance across resamples: symmetric, non-negative variances, independent of the order of the resamples *)
Theorem C04_covariance_symmetric : forall x y, length x = length y -> cov1 ROps x y = cov1 ROps y x.
Proof. exact cov1_symmetric. Qed.
Print Assumptions C04_covariance_symmetric.

Theorem C04_variance_nonnegative : forall x, (2 <= length x)%nat -> 0 <= cov1 ROps x x.
Proof. exact cov1_variance_nonneg. Qed.
Print Assumptions C04_variance_nonnegative.

Theorem C04_covariance_independent_of_resample_order : forall x y x' y',
  length x = length y -> length x' = length y' -> Permutation (combine x y) (combine x' y') ->
  cov1 ROps x y = cov1 ROps x' y'.
Proof. exact cov1_resample_order. Qed.
Print Assumptions C04_covariance_independent_of_resample_order.

(* fixed evaluation: cov(ddof=0)/n with the n/(n-1) factor is the sample covariance over n *)
Theorem C04_fixed_covariance : forall x y, (2 <= length x)%nat ->
  bessel ROps (length x) * cov0n ROps x y = cov1 ROps x y / INR (length x).
Proof. exact cov0n_is_cov1_over_n. Qed.
Print Assumptions C04_fixed_covariance.

(* repetition correction: a fixed point when repetitions do not vary, never above the covariance of the means otherwise *)
Theorem C04_cv_correction_fixpoint : forall n_cv v, (2 <= n_cv)%nat -> cv_correct ROps n_cv v v = v.
Proof. exact cv_correct_fixpoint. Qed.
Print Assumptions C04_cv_correction_fixpoint.

Theorem C04_cv_correction_le : forall n_cv vm v1, (2 <= n_cv)%nat -> vm <= v1 -> cv_correct ROps n_cv vm v1 <= vm.
Proof. exact cv_correct_le. Qed.
Print Assumptions C04_cv_correction_le.

(* degrees of freedom: the smaller number of resampled units when both factors are resampled *)
Theorem C04_dof_both_is_smaller : forall n_rdm n_cond,
  (dof_of BBoth n_rdm n_cond <= dof_of BRdm n_rdm n_cond)%nat /\ (dof_of BBoth n_rdm n_cond <= dof_of BPattern n_rdm n_cond)%nat.
Proof. exact dof_both_is_smaller. Qed.
Print Assumptions C04_dof_both_is_smaller.

(* the variance of a model difference taken from the covariance across resamples is the sample variance of the per-resample
   differences, hence non-negative *)
Theorem C04_difference_variance_nonnegative : forall x y, length x = length y -> (2 <= length x)%nat ->
  0 <= cov1 ROps x x + cov1 ROps y y - 2 * cov1 ROps x y.
Proof. exact cov1_contrast_nonneg. Qed.
Print Assumptions C04_difference_variance_nonnegative.
