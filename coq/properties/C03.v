(* C03 — RDM comparison measures equal their definitions for every pair of RDMs. *)
From Coq Require Import List ZArith Reals Permutation Bool.
From RSA Require Import Prelude Vec VecR LinAlg CompareModel CompareProofs.
Import ListNotations.
Open Scope R_scope.

(* symmetric in the two arguments *)
Theorem C03_cosine_symmetric : forall x y, cosine ROps x y = cosine ROps y x.
Proof. exact cosine_sym. Qed.
Print Assumptions C03_cosine_symmetric.

Theorem C03_tau_a_symmetric : forall x y, length x = length y -> tau_a ROps x y = tau_a ROps y x.
Proof. exact tau_a_sym. Qed.
Print Assumptions C03_tau_a_symmetric.

(* lies in [-1,1] *)
Theorem C03_cosine_range : forall x y, length x = length y -> -1 <= cosine ROps x y <= 1.
Proof. exact cosine_range. Qed.
Print Assumptions C03_cosine_range.

(* Pearson = cosine of the centred vectors, so symmetry / range / self-similarity carry over *)
Theorem C03_corr_is_centred_cosine : forall x y, corr ROps x y = cosine ROps (center ROps x) (center ROps y).
Proof. reflexivity. Qed.
Print Assumptions C03_corr_is_centred_cosine.

(* concordance counts with ties: |#concordant - #discordant| <= number of pairs *)
Theorem C03_tau_a_counts_bounded : forall x y,
  - INR (length (triu_map (fun p q : R * R => 0) (combine x y))) <= con_minus_dis ROps x y
  <= INR (length (triu_map (fun p q : R * R => 0) (combine x y))).
Proof. exact con_minus_dis_bound. Qed.
Print Assumptions C03_tau_a_counts_bounded.

(* equals 1 for an RDM with itself *)
Theorem C03_cosine_self : forall x, 0 < dot ROps x x -> cosine ROps x x = 1.
Proof. exact cosine_self. Qed.
Print Assumptions C03_cosine_self.

(* unchanged when the conditions of both RDMs are permuted together (the two vectors undergo the same
   permutation of their entries) *)
Theorem C03_cosine_perm_invariant : forall x y x' y',
  length x = length y -> length x' = length y' -> Permutation (combine x y) (combine x' y') ->
  cosine ROps x y = cosine ROps x' y'.
Proof. exact cosine_perm_invariant. Qed.
Print Assumptions C03_cosine_perm_invariant.

Theorem C03_corr_perm_invariant : forall x y x' y',
  length x = length y -> length x' = length y' -> Permutation (combine x y) (combine x' y') ->
  corr ROps x y = corr ROps x' y'.
Proof. exact corr_perm_invariant. Qed.
Print Assumptions C03_corr_perm_invariant.

Theorem C03_spearman_perm_invariant : forall x y x' y',
  length x = length y -> length x' = length y' -> Permutation (combine x y) (combine x' y') ->
  spearman ROps x y = spearman ROps x' y'.
Proof. exact spearman_perm_invariant. Qed.
Print Assumptions C03_spearman_perm_invariant.

Theorem C03_rho_a_perm_invariant : forall x y x' y',
  length x = length y -> length x' = length y' -> Permutation (combine x y) (combine x' y') ->
  rho_a ROps x y = rho_a ROps x' y'.
Proof. exact rho_a_perm_invariant. Qed.
Print Assumptions C03_rho_a_perm_invariant.

Theorem C03_tau_a_perm_invariant : forall x y x' y',
  length x = length y -> length x' = length y' -> Permutation (combine x y) (combine x' y') ->
  tau_a ROps x y = tau_a ROps x' y'.
Proof. exact tau_a_perm_invariant. Qed.
Print Assumptions C03_tau_a_perm_invariant.

(* whitened measures r1' V^-1 r2 / sqrt(r1' V^-1 r1 * r2' V^-1 r2): for every symmetric positive-semidefinite
   form B (here B a b = a' V^-1 b) the similarity is symmetric, 1 on the diagonal and within [-1,1] *)
Theorem C03_whitened_symmetric : forall (V : Type) (B : V -> V -> R),
  (forall x y, B x y = B y x) -> forall x y, wsim V B x y = wsim V B y x.
Proof. exact wsim_sym. Qed.
Print Assumptions C03_whitened_symmetric.

Theorem C03_whitened_self : forall (V : Type) (B : V -> V -> R) x, 0 < B x x -> wsim V B x x = 1.
Proof. exact wsim_self. Qed.
Print Assumptions C03_whitened_self.

Theorem C03_whitened_range : forall (V : Type) (vplus : V -> V -> V) (vsc : R -> V -> V) (B : V -> V -> R),
  (forall x y, B x y = B y x) -> (forall x y z, B (vplus x y) z = B x z + B y z) ->
  (forall a x z, B (vsc a x) z = a * B x z) -> (forall x, 0 <= B x x) ->
  forall x y, 0 < B x x -> 0 < B y y -> -1 <= wsim V B x y <= 1.
Proof. exact wsim_range. Qed.
Print Assumptions C03_whitened_range.

Theorem C03_whitened_is_form : forall Vi x y,
  whitened ROps Vi x y = wsim (list R) (fun a b => dot ROps a (matvec ROps Vi b)) x y.
Proof. exact whitened_is_wsim. Qed.
Print Assumptions C03_whitened_is_form.

(* an RDM without length (all zero; for the correlation: constant) has similarity 0, and a stack comparison is entry-wise:
   such an RDM in a stack cannot change any other entry *)
Theorem C03_cosine_zero_norm : forall x y, dot ROps x x = 0 -> cosine ROps x y = 0.
Proof. exact cosine_zero_norm_l. Qed.
Print Assumptions C03_cosine_zero_norm.

Theorem C03_stack_comparison_entrywise : forall (X : Type) (f : list R -> list R -> X) (a b : list (list R)) i j (d : X),
  (i < length a)%nat -> (j < length b)%nat ->
  nth j (nth i (all_pairs f a b) []) d = f (nth i a []) (nth j b []).
Proof. exact @all_pairs_entrywise. Qed.
Print Assumptions C03_stack_comparison_entrywise.
