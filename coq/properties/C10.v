(* C10 — RDM container operations never change which value belongs to which pair. *)
From Coq Require Import List ZArith Bool Arith Lia.
From RSA Require Import ListLib RdmModel RdmProofs.
Import ListNotations.

(* Provenance invariant [Inv src src_pats src_rdms s]: every condition / RDM tuple of s occurs in the
   source, and entry (i,j) of every matrix is the source value of (its RDM id, the two conditions'
   source ids), NaN for two copies of one condition, zero on the diagonal. *)

(* one step of any of the 13 operations preserves it, for all admissible arguments *)
Theorem C10_step_preserves_provenance :
  forall (A : Type) (zero : A) (src : Z -> Z -> Z -> option A) (src_pats src_rdms : list (list Z))
         (s : rdms A) (o : op A),
  Inv zero src src_pats src_rdms s -> op_ok zero src src_pats src_rdms o ->
  Inv zero src src_pats src_rdms (step A zero s o).
Proof. exact @step_inv. Qed.
Print Assumptions C10_step_preserves_provenance.

(* hence every state reachable by ANY finite operation sequence satisfies it *)
Theorem C10_all_sequences :
  forall (A : Type) (zero : A) (src : Z -> Z -> Z -> option A) (src_pats src_rdms : list (list Z))
         (ops : list (op A)) (s : rdms A),
  Inv zero src src_pats src_rdms s -> Forall (op_ok zero src src_pats src_rdms) ops ->
  Inv zero src src_pats src_rdms (fold_left (step A zero) ops s).
Proof. exact @run_inv. Qed.
Print Assumptions C10_all_sequences.

(* vector and square forms describe symmetric zero-diagonal matrices *)
Theorem C10_symmetric_zero_diagonal :
  forall (A : Type) (zero : A) (src : Z -> Z -> Z -> option A) (src_pats src_rdms : list (list Z)),
  (forall r a b, src r a b = src r b a) ->
  forall (s : rdms A) it i j,
  Inv zero src src_pats src_rdms s -> In it (items s) -> i < ncond A s -> j < ncond A s ->
  mget A (snd it) i j = mget A (snd it) j i /\ mget A (snd it) i i = Some zero.
Proof. exact @inv_symmetric. Qed.
Print Assumptions C10_symmetric_zero_diagonal.

(* the selection lemma all pattern-axis operations reduce to *)
Theorem C10_selection :
  forall (A : Type) (zero : A) (src : Z -> Z -> Z -> option A) (src_pats src_rdms : list (list Z))
         d sel (s : rdms A),
  Inv zero src src_pats src_rdms s -> sel_ok (ncond A s) sel -> (d = true \/ NoDup sel) ->
  Inv zero src src_pats src_rdms (sel_patterns A zero d sel s).
Proof. exact @sel_patterns_inv. Qed.
Print Assumptions C10_selection.

(* sorting is a stable permutation (shared with C11) *)
Theorem C10_sort_stable : forall (X : Type) (key : X -> Z) k l,
  filter (fun a => Z.eqb (key a) k) (isort_by key l) = filter (fun a => Z.eqb (key a) k) l.
Proof. exact @isort_by_stable. Qed.
Print Assumptions C10_sort_stable.

(* non-vacuity: a concrete source object satisfies the invariant *)
Example C10_inv_example :
  let src := fun r a b => Some (r * 10000 + Z.min a b * 100 + Z.max a b)%Z in
  let M : mat Z := [[Some 0; Some 50102]; [Some 50102; Some 0]]%Z in
  Inv 0%Z src [[1;7];[2;8]]%Z [[5]%Z] (mkRdms [[1;7];[2;8]]%Z [([5]%Z, M)] [0;1]%Z [0]%Z).
Proof.
  cbv zeta. split; [split|split; reflexivity]; cbn [pats items].
  - constructor; [left; reflexivity|]. constructor; [right; left; reflexivity|constructor].
  - constructor; [|constructor]. split; [left; reflexivity|].
    intros i j Hi Hj. cbn in Hi, Hj.
    destruct i as [|[|i]]; destruct j as [|[|j]]; try lia; reflexivity.
Qed.

(* the number of conditions is recovered from the vector length for every size *)
Theorem C10_n_from_length : forall n : N, (1 <= n)%N -> n_from_length (n * (n - 1) / 2) = n.
Proof. exact n_from_length_correct. Qed.
Print Assumptions C10_n_from_length.
