(* C01 — RDM estimators equal their formula on condition means, correctly labelled.
   Only statements, closed by [exact]; proofs live in theories/CalcProofs.v. *)
From Coq Require Import List ZArith Reals Permutation Sorted.
From RSA Require Import Prelude Vec VecR ListLib CalcModel CalcProofs.
Import ListNotations.
Open Scope R_scope.

(* what the code computes with the Gram-matrix trick is the squared distance / P *)
Theorem C01_euclid_formula : forall p a b, length a = length b ->
  g_euclid ROps p a b = sqdist ROps a b / INR p.
Proof. intros p a b H. rewrite (g_euclid_eq p a b H). unfold d_euclid, ofnat. cbn [ndiv nofZ ROps]. rewrite <- INR_IZR_INZ. reflexivity. Qed.
Print Assumptions C01_euclid_formula.

(* difference' * precision * difference / P, for every symmetric precision *)
Theorem C01_mahal_formula : forall N p a b, length a = length b ->
  bilin ROps N a b = bilin ROps N b a ->
  g_mahal ROps N p a b = bilin ROps N (vsub ROps a b) (vsub ROps a b) / INR p.
Proof. intros N p a b H Hs. rewrite (g_mahal_eq N p a b H Hs). unfold d_mahal, ofnat. cbn [ndiv nofZ ROps]. rewrite <- INR_IZR_INZ. reflexivity. Qed.
Print Assumptions C01_mahal_formula.

(* sum (l_a - l_b)(log l_a - log l_b) / P, for any function in place of log *)
Theorem C01_poisson_formula : forall lg p a b, length a = length b ->
  g_poisson ROps lg p a b = d_poisson ROps lg p a b.
Proof. exact g_poisson_eq. Qed.
Print Assumptions C01_poisson_formula.

(* 1 - Pearson r (not divided by P), r in [-1,1] *)
Theorem C01_corr_formula : forall a b,
  0 < sqnorm ROps (center ROps a) -> 0 < sqnorm ROps (center ROps b) ->
  g_corr ROps a b = 1 - pearson ROps a b.
Proof. exact g_corr_eq. Qed.
Print Assumptions C01_corr_formula.

Theorem C01_corr_range : forall a b,
  0 < sqnorm ROps (center ROps a) -> 0 < sqnorm ROps (center ROps b) -> length a = length b ->
  -1 <= pearson ROps a b <= 1.
Proof. exact pearson_range. Qed.
Print Assumptions C01_corr_range.

(* values depend only on the multiset of (label, observation) pairs *)
Theorem C01_multiset_invariance : forall p lab rows lab' rows',
  length lab = length rows -> length lab' = length rows' ->
  Permutation (combine lab rows) (combine lab' rows') ->
  sort_uniq lab = sort_uniq lab' /\
  cond_means_sorted ROps p lab rows = cond_means_sorted ROps p lab' rows'.
Proof. exact cond_means_perm_invariant. Qed.
Print Assumptions C01_multiset_invariance.

(* one row/column per distinct label; labels strictly increasing *)
Theorem C01_labels : forall lab,
  StronglySorted Z.lt (sort_uniq lab) /\ (forall x, In x (sort_uniq lab) <-> In x lab).
Proof. exact labels_sorted_distinct. Qed.
Print Assumptions C01_labels.

Theorem C01_one_row_per_label : forall p lab rows,
  length (cond_means_sorted ROps p lab rows) = length (sort_uniq lab).
Proof. exact cond_means_length. Qed.
Print Assumptions C01_one_row_per_label.

(* non-vacuity: a 6x2 dataset with labels [2;1;3;2;1;3] *)
Example C01_example :
  sort_uniq [2;1;3;2;1;3]%Z = [1;2;3]%Z /\
  length (cond_means_sorted ROps 2 [2;1;3;2;1;3]%Z [[1;2];[3;4];[5;6];[7;8];[9;10];[11;12]]) = 3%nat.
Proof. split; reflexivity. Qed.
