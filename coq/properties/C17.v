(* C17 — RDM transforms mean what they say; measures are invariant as theory dictates. *)
From Coq Require Import List ZArith Reals Bool.
From RSA Require Import Prelude Vec VecR CompareModel CompareProofs NanModel TransformModel TransformProofs.
Import ListNotations.
Open Scope R_scope.

(* tie-averaged ranks are unchanged by ANY strictly increasing transform *)
Theorem C17_ranks_monotone_invariant : forall f l, strictly_increasing f -> ranks ROps (map f l) = ranks ROps l.
Proof. exact ranks_map_eq. Qed.
Print Assumptions C17_ranks_monotone_invariant.

(* hence Spearman, rho-a, Kendall tau-a and tau-b are unchanged by strictly increasing transforms of either RDM *)
Theorem C17_spearman_invariant : forall f g x y, strictly_increasing f -> strictly_increasing g ->
  spearman ROps (map f x) (map g y) = spearman ROps x y.
Proof. exact spearman_monotone_invariant. Qed.
Print Assumptions C17_spearman_invariant.

Theorem C17_rho_a_invariant : forall f g x y, strictly_increasing f -> strictly_increasing g ->
  rho_a ROps (map f x) (map g y) = rho_a ROps x y.
Proof. exact rho_a_monotone_invariant. Qed.
Print Assumptions C17_rho_a_invariant.

Theorem C17_tau_a_invariant : forall f g x y, strictly_increasing f -> strictly_increasing g ->
  tau_a ROps (map f x) (map g y) = tau_a ROps x y.
Proof. exact tau_a_monotone_invariant. Qed.
Print Assumptions C17_tau_a_invariant.

Theorem C17_tau_b_invariant : forall f g x y, strictly_increasing f -> strictly_increasing g ->
  tau_b ROps (map f x) (map g y) = tau_b ROps x y.
Proof. exact tau_b_monotone_invariant. Qed.
Print Assumptions C17_tau_b_invariant.

(* e.g. sqrt_transform of non-negative RDMs never changes a rank-based evaluation *)
Theorem C17_sqrt_preserves_spearman : forall x y, (forall v, In v x -> 0 <= v) -> (forall v, In v y -> 0 <= v) ->
  spearman ROps (map (sqrt_clip ROps) x) (map (sqrt_clip ROps) y) = spearman ROps x y.
Proof. exact sqrt_preserves_spearman. Qed.
Print Assumptions C17_sqrt_preserves_spearman.

Theorem C17_sqrt_preserves_tau_a : forall x y, (forall v, In v x -> 0 <= v) -> (forall v, In v y -> 0 <= v) ->
  tau_a ROps (map (sqrt_clip ROps) x) (map (sqrt_clip ROps) y) = tau_a ROps x y.
Proof. exact sqrt_preserves_tau_a. Qed.
Print Assumptions C17_sqrt_preserves_tau_a.

(* cosine-type measures: positive scaling; correlation-type measures: positive affine maps *)
Theorem C17_cosine_scale_invariant : forall a x y, 0 < a -> cosine ROps (vscale ROps a x) y = cosine ROps x y.
Proof. exact cosine_scale_invariant. Qed.
Print Assumptions C17_cosine_scale_invariant.

Theorem C17_corr_affine_invariant : forall a b x y, 0 < a -> x <> [] ->
  corr ROps (map (fun v => a * v + b) x) y = corr ROps x y.
Proof. exact corr_affine_invariant. Qed.
Print Assumptions C17_corr_affine_invariant.

(* minmax maps each RDM increasingly and affinely onto [0,1] *)
Theorem C17_minmax_affine_onto_unit : forall lo hi x y, lo < hi -> lo <= x <= hi -> lo <= y <= hi ->
  0 <= (x - lo) / (hi - lo) <= 1 /\ (x < y -> (x - lo) / (hi - lo) < (y - lo) / (hi - lo)) /\
  (lo - lo) / (hi - lo) = 0 /\ (hi - lo) / (hi - lo) = 1.
Proof. exact minmax_range_monotone. Qed.
Print Assumptions C17_minmax_affine_onto_unit.

Theorem C17_minmax_values_in_unit_interval : forall (l : list R) v,
  list_min ROps l < list_max ROps l -> In v (minmax ROps l) -> 0 <= v <= 1.
Proof. exact minmax_in_unit_interval. Qed.
Print Assumptions C17_minmax_values_in_unit_interval.

(* the geo-topological transform is a clipped-linear map with values in [0,1] *)
Theorem C17_geotopo_range : forall lo hi x, lo < hi -> 0 <= geotopo ROps lo hi x <= 1.
Proof. exact geotopo_range. Qed.
Print Assumptions C17_geotopo_range.
